# table read by tools_manifest.py
NOTES = ('Layer P = obligations discharged by z3/cvc5 for all inputs under the real-arithmetic semantics A1-A5 of DESIGN.md; '
         'Layer B = bounded stand-in (run-time contract checks on lattices vs independent 50-digit oracles), never counted as proved. '
         'Exit 0 held, 1 VIOLATION, 3 checker error. fix: commits in /repo are listed in known_findings.json.')
NOT_CLAIMED = {}
CLAIMS = {
 'C03': dict(text='Proof (real-arithmetic semantics): llh2xyz equals the closed form on every path for every ellipsoid, its foot point lies on the ellipsoid with the stated normal; xyz2llh loop step, exit criterion, longitude range and exact inverse at a fixed point are discharged obligations on the real functions (loop cut). Float tolerances (1 um, 0.02 mm) and convergence are bounded (lattice vs 50-digit closed form).',
             note='floats as reals; transcendental functions as axiomatised UFs; contraction of the latitude iteration is an assumed lemma checked only by the bounded layer; VC generator trusted, cross-checked against CPython each run',
             technique='contracts on real functions, symbolic execution + loop cut, z3-discharged VCs; deal-style bounded stand-in'),
 'C16': dict(text='Proof (real-arithmetic semantics): the rotation matrix is orthonormal, right-handed with the specified east/north/up columns for every lat/lon; enu<->xyz are exact inverses preserving length; covariance rotation equals R^T V R / R V R^T, preserves symmetry, trace and characteristic polynomial and round-trips; error-ellipse axes are the eigenvalues of the horizontal block with the major axis an eigenvector at the returned bearing; relative error uses V1+V2-C12-C12^T; k_val95 selection/index bounds for all integers; the 120-entry t-table is bracketed exhaustively by 40-digit incomplete beta. Float behaviour bounded.',
             note='floats as reals; sin/cos as UFs with sin^2+cos^2=1; atan2 polar form and double-angle identities as axiom instances; numpy executed natively on object arrays (np.zeros replaced by an object-array allocator in the checker process); PSD inputs assumed exactly PSD',
             technique='contracts on real functions run on symbolic matrices, polynomial VCs discharged by z3 (nlsat); exhaustive table bracket; bounded lattice stand-in'),
}
