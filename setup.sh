#!/bin/sh
# Build /verif/.venv (python 3.12) offline from the wheelhouse, overlaying /venv's site-packages (repo deps).
# Idempotent. Everything comes from files on disk.
set -e
cd "$(dirname "$0")"
V=.venv
if [ -x "$V/bin/python" ] && "$V/bin/python" -c "import z3, mpmath, sympy, jsonschema, numpy, deal" 2>/dev/null; then
  echo "setup: $V ok"
else
  rm -rf "$V"
  /venv/bin/python -m venv "$V"
  PIP_NO_INDEX=1 "$V/bin/pip" install -q --no-index --find-links /opt/veriftools/wheels \
      z3-solver cvc5 mpmath sympy deal jsonschema >/dev/null
  SP=$("$V/bin/python" -c "import sysconfig; print(sysconfig.get_paths()['purelib'])")
  echo "import site; site.addsitedir('/venv/lib/python3.12/site-packages')" > "$SP/_repo_overlay.pth"
  "$V/bin/python" -c "import z3, cvc5, mpmath, sympy, jsonschema, numpy, deal; print('setup: built', z3.get_version_string())"
fi
mkdir -p evidence replays cache
