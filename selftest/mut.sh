#!/bin/sh
# usage: selftest/mut.sh <Cxx> <file-relative-to-repo> <python-replace-old> <python-replace-new>   (scratch copy, removed afterwards)
ID="$1"; F="$2"; OLD="$3"; NEW="$4"
D=$(mktemp -d /var/tmp/mut.XXXXXX)
rsync -a --exclude .git /repo/ "$D/"
python3 - "$D/$F" "$OLD" "$NEW" <<'PY'
import sys
p,old,new=sys.argv[1:4]; s=open(p).read()
assert s.count(old)>=1, 'pattern not found'
open(p,'w').write(s.replace(old,new,1))
PY
[ $? -eq 0 ] || { rm -rf "$D"; exit 9; }
cd "$(dirname "$0")/.."
VERIF_REPO="$D" VERIF_OUT="$D/_verif_out" VERIF_SKIP_B="${SKIPB:-1}" ./check "$ID" 2>&1 | grep -E "VIOLATION|UNPROVED|KNOWN|ENGINE|obligations" | head -${LINES_MAX:-8}
rm -rf "$D"
