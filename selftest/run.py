#!/usr/bin/env python3
"""Run the mutation / refactor self-test: each entry of selftest/mutants.py is applied to a scratch copy of /repo (under
/var/tmp, removed afterwards), the 75 baseline tests are run there (a breaking edit that fails them is not a valid self-test
entry), then the property's check runs with VERIF_REPO pointing at the copy.  Writes selftest/results.json."""
import os, sys, json, shutil, subprocess, tempfile, time, concurrent.futures as cf
HERE = os.path.dirname(os.path.abspath(__file__))
sys.path.insert(0, HERE)
from mutants import M

ROOT = os.path.dirname(HERE)


def one(entry):
    mid, pid, rel, old, new, expect = entry
    d = tempfile.mkdtemp(prefix='selftest_', dir='/var/tmp')
    t0 = time.time()
    try:
        subprocess.check_call(['rsync', '-a', '--exclude', '.git', '/repo/', d + '/'])
        shutil.rmtree(os.path.join(d, '.git'), ignore_errors=True)
        p = os.path.join(d, rel)
        s = open(p).read()
        if s.count(old) < 1:
            return dict(id=mid, property=pid, status='pattern-not-found')
        open(p, 'w').write(s.replace(old, new, 1))
        tests = subprocess.run(['/venv/bin/python', '-m', 'pytest', '-q', '-x', '-p', 'no:cacheprovider'], cwd=d, capture_output=True, text=True)
        tests_ok = tests.returncode == 0
        env = dict(os.environ, VERIF_REPO=d, VERIF_VERBOSE='0', VERIF_OUT=os.path.join(d, '_verif_out'))
        r = subprocess.run([os.path.join(ROOT, 'check'), pid], cwd=ROOT, env=env, capture_output=True, text=True, timeout=3600)
        viol = [l for l in r.stdout.split('\n') if l.startswith('VIOLATION')]
        named = sorted(set(l.split('replay=')[1].split()[0].split('/')[-1].rsplit('.json', 1)[0] for l in viol))[:6]
        got = 'violation' if r.returncode == 1 and viol else ('quiet' if r.returncode == 0 else 'error rc=%d' % r.returncode)
        return dict(id=mid, property=pid, expect=expect, got=got, ok=(got == expect), tests_pass=tests_ok, obligations=named, with_input=sum('no-failing-input-found' not in l for l in viol),
                    seconds=round(time.time() - t0, 1), tail=r.stdout.strip().split('\n')[-1][:160])
    finally:
        shutil.rmtree(d, ignore_errors=True)


def main():
    sel = [e for e in M if not sys.argv[1:] or e[0] in sys.argv[1:] or e[1] in sys.argv[1:]]
    res = []
    with cf.ThreadPoolExecutor(max_workers=int(os.environ.get('SELFTEST_JOBS', '3'))) as ex:
        for r in ex.map(one, sel):
            res.append(r)
            print(json.dumps(r), flush=True)
    out = os.path.join(HERE, 'results.json')
    old = {}
    if os.path.exists(out) and sys.argv[1:]:
        old = {r['id']: r for r in json.load(open(out))}
    for r in res:
        old[r['id']] = r
    json.dump(list(old.values()) if sys.argv[1:] else res, open(out, 'w'), indent=1)
    bad = [r for r in res if not r.get('ok')]
    print('selftest: %d entries, %d as expected, %d not' % (len(res), len(res) - len(bad), len(bad)))
    sys.exit(1 if bad else 0)


if __name__ == '__main__':
    main()
