"""Self-test of the checker (DESIGN 2.10): property-breaking edits that keep the 75 tests green must raise a VIOLATION
on the right property; harmless refactors must raise none.  Each entry: (id, property, file, old text, new text, expectation).
Run:  .venv/bin/python selftest/run.py [ids...]     (scratch copies under /var/tmp, removed afterwards)"""

BREAK, QUIET = 'violation', 'quiet'
M = [
    # ---- C01
    ('c01-alpha-default-ellipsoid', 'C01', 'geodepy/convert.py', "    a = alpha_coeff(ellipsoid)\n    lat = radians(lat)\n    # Calculate Zone", "    a = alpha_coeff(grs80)\n    lat = radians(lat)\n    # Calculate Zone", BREAK),
    ('c01-false-easting-constant', 'C01', 'geodepy/convert.py', "east = prj.cmscale * x + prj.falseeast", "east = prj.cmscale * x + 500000", BREAK),
    ('c01-north-adds-false-northing', 'C01', 'geodepy/convert.py', "        falsenorth = 0\n", "        falsenorth = prj.falsenorth if prj is not utm else 0\n", BREAK),
    ('c01-a8-leading-coefficient', 'C01', 'geodepy/convert.py', "+ 2355138720))\n          / 7664025600.)\n\n    a10", "+ 2355138720))\n          / 3832012800.)\n\n    a10", BREAK),
    ('c01-cosh-high-terms', 'C01', 'geodepy/convert.py', "        xi += a[r-1] * sin(2*r * xi1) * cosh(2*r * eta1)", "        xi += a[r-1] * sin(2*r * xi1) * cosh((2*r if r < 3 else r) * eta1)", BREAK),
    ('c01-harmless-reorder', 'C01', 'geodepy/convert.py', "    x = A * eta\n    y = A * xi", "    y = A * xi\n    x = A * eta", QUIET),
    ('c01-harmless-rename', 'C01', 'geodepy/convert.py', "    long_diff = radians(lon - cm)\n    # Gauss-Schreiber Ratios\n    xi1 = atan(tan(conf_lat) / cos(long_diff))\n    eta1x = sin(long_diff) / (sqrt(tan(conf_lat) ** 2 + cos(long_diff) ** 2))",
     "    omega = radians(lon - cm)\n    long_diff = omega\n    # Gauss-Schreiber Ratios\n    xi1 = atan(tan(conf_lat) / cos(omega))\n    eta1x = sin(omega) / (sqrt(cos(omega) ** 2 + tan(conf_lat) ** 2))", QUIET),
    # ---- C02
    ('c02-newton-tolerance', 'C02', 'geodepy/convert.py', "    while diff > 1e-15 and itercount < 100:", "    while diff > 1e-6 and itercount < 100:", BREAK),
    ('c02-newton-cap', 'C02', 'geodepy/convert.py', "    while diff > 1e-15 and itercount < 100:", "    while diff > 1e-15 and itercount < 2:", BREAK),
    ('c02-false-north-from-utm', 'C02', 'geodepy/convert.py', "        y = (north - float(prj.falsenorth)) / float(prj.cmscale)", "        y = (north - float(utm.falsenorth)) / float(prj.cmscale)", BREAK),
    ('c02-hemisign-dropped', 'C02', 'geodepy/convert.py', "    return (hemisign * round(lat, 11),", "    return (round(lat, 11),", BREAK),
    ('c02-harmless-inline-sigma', 'C02', 'geodepy/convert.py', "        return (t * sqrt(1 + (sigma(tn, ecc1)) ** 2) -\n                sigma(tn, ecc1) * sqrt(1 + tn ** 2) - t1)",
     "        sg = sigma(tn, ecc1)\n        return (t * sqrt(1 + sg ** 2) -\n                sg * sqrt(1 + tn ** 2) - t1)", QUIET),
    # ---- C03
    ('c03-ecc2-in-llh2xyz', 'C03', 'geodepy/convert.py', "        nu = ellipsoid.semimaj/(sqrt(1 - ellipsoid.ecc1sq * (sin(lat)**2)))\n    # Calculate x, y, z", "        nu = ellipsoid.semimaj/(sqrt(1 - ellipsoid.ecc2sq * (sin(lat)**2)))\n    # Calculate x, y, z", BREAK),
    ('c03-exit-tolerance', 'C03', 'geodepy/convert.py', "    while abs(itercheck) > 1e-10:", "    while abs(itercheck) > 1e-6:", BREAK),
    ('c03-harmless-b2-over-a2', 'C03', 'geodepy/convert.py', "    z = ((ellipsoid.semimin**2 / ellipsoid.semimaj**2) * nu + ellht) * sin(lat)", "    z = ((1 - ellipsoid.ecc1sq) * nu + ellht) * sin(lat)", QUIET),
    # ---- C04 / C05
    ('c04-A-coefficient', 'C04', 'geodepy/geodesy.py', "        * (4096 + u_squared * (-768 + u_squared * (320 - 175 * u_squared)))\n\n    # Eq. 93", "        * (4096 + u_squared * (-768 + u_squared * (230 - 175 * u_squared)))\n\n    # Eq. 93", BREAK),
    ('c04-default-flattening', 'C04', 'geodepy/geodesy.py', "    c = (ellipsoid.f/16)*cos(alpha)**2 \\\n        * (4 + ellipsoid.f*(4 - 3*cos(alpha)**2))\n\n    # Eq. 101", "    c = (grs80.f/16)*cos(alpha)**2 \\\n        * (4 + ellipsoid.f*(4 - 3*cos(alpha)**2))\n\n    # Eq. 101", BREAK),
    ('c04-sigma-tolerance', 'C04', 'geodepy/geodesy.py', "        if abs(sigma_change) < 1e-12:", "        if abs(sigma_change) < 1e-6:", BREAK),
    ('c05-shift-dependence', 'C05', 'geodepy/geodesy.py', "    lon = radians(lon2 - lon1)\n    omega = lon", "    lon = radians((lon2 - lon1 + 180) % 360 - 180) if abs(lon1) > 179.9 else radians(lon2 - lon1)\n    omega = lon", BREAK),
    ('c05-reverse-azimuth-180', 'C05', 'geodepy/geodesy.py', "                                 + cos(u1)*sin(u2)*cos(lon)))) + 180\n", "                                 + cos(u1)*sin(u2)*cos(lon)))) + (180 if lat1 > -60 else 0)\n", BREAK),
    # ---- C06 / C07 / C11 / C13
    ('c06-rotation-transposed', 'C06', 'geodepy/transform.py', "    rotation = np.array([[1., rz, -ry],\n                         [-rz, 1., rx],\n                         [ry, -rx, 1.]])", "    rotation = np.array([[1., -rz, ry],\n                         [rz, 1., -rx],\n                         [-ry, rx, 1.]])", BREAK),
    ('c06-scale-variance-unit', 'C06', 'geodepy/transform.py', "        q_mat[3, 3] = (trans.tf_sd.sd_sc / 1000000)**2", "        q_mat[3, 3] = (trans.tf_sd.sd_sc / 100000)**2", BREAK),
    ('c06-jacobian-sign', 'C06', 'geodepy/transform.py', "        j_mat[1, 4] = scale * xyz_before[2, 0]", "        j_mat[1, 4] = -scale * xyz_before[2, 0]", BREAK),
    ('c07-julian-year', 'C07', 'geodepy/constants.py', "            timediff = (other - self.ref_epoch).days/365.25", "            timediff = (other - self.ref_epoch).days/365", BREAK),
    ('c07-scale-rate-not-applied', 'C07', 'geodepy/constants.py', "                                  round(self.sc + (self.d_sc * timediff), 8),", "                                  round(self.sc, 8),", BREAK),
    ('c11-table-digit', 'C11', 'geodepy/constants.py', "    tx=-24.0, ty=2.4, tz=-38.6,", "    tx=-24.0, ty=2.4, tz=-36.8,", BREAK),
    ('c11-iers-rotation-sign', 'C11', 'geodepy/constants.py', "                          round(-rx / 1000, 8), round(-ry / 1000, 8),", "                          round(rx / 1000, 8), round(-ry / 1000, 8),", BREAK),
    ('c13-height-not-zeroed', 'C13', 'geodepy/transform.py', "    if ell_ht is False:\n        ell_ht_out = 0\n    hemisphere, zone20, east20, north20, psf, gridconv = geo2grid(lat, lon)\n    return zone20, east20, north20, round(ell_ht_out, 4), vcv20",
     "    hemisphere, zone20, east20, north20, psf, gridconv = geo2grid(lat, lon)\n    return zone20, east20, north20, round(ell_ht_out, 4), vcv20", BREAK),
    ('c13-reverse-vcv-unnegated', 'C13', 'geodepy/transform.py', "    x20, y20, z20, vcv94 = conform7(x94, y94, z94, -gda94_to_gda2020, vcv=vcv)", "    x20, y20, z20, _ = conform7(x94, y94, z94, -gda94_to_gda2020)\n    vcv94 = conform7(x94, y94, z94, gda94_to_gda2020, vcv=vcv)[3]", BREAK),   # covariance carried through the forward instead of the reverse set: differs at 4e-7 relative, reported with failing inputs
    # ---- C09
    ('c09-module-cache', 'C09', 'geodepy/convert.py', "def rect_radius(ellipsoid):\n", "_RR_CACHE = {}\n\n\ndef rect_radius(ellipsoid):\n    _RR_CACHE[id(ellipsoid)] = ellipsoid.inversef\n", QUIET),   # a write-only table: no result depends on it, no constant or argument is touched (the property as stated holds)
    ('c09-vcv-in-place', 'C09', 'geodepy/statistics.py', "    rot_matrix = rotation_matrix(lat, lon)\n    vcv_local = rot_matrix.transpose() @ vcv_cart @ rot_matrix\n", "    rot_matrix = rotation_matrix(lat, lon)\n    vcv_local = rot_matrix.transpose() @ vcv_cart @ rot_matrix\n    if not column_vector:\n        vcv_cart[:] = vcv_cart\n", BREAK),
    # ---- C10
    ('c10-cmscale-from-utm', 'C10', 'geodepy/convert.py', "    psf = (float(prj.cmscale)\n", "    psf = (float(utm.cmscale)\n", BREAK),
    ('c10-sign-rule-south', 'C10', 'geodepy/convert.py', "    if east_of_cm < 0 and lat < 0:\n        grid_conv = -grid_conv", "    if east_of_cm > 0 and lat < 0:\n        grid_conv = -grid_conv", BREAK),
    # ---- C14 / C15 / C16
    ('c14-bearing-plus-convergence', 'C14', 'geodepy/geodesy.py', "    az1to2 = grid1to2 - gridconv1", "    az1to2 = grid1to2 + gridconv1", BREAK),
    ('c14-eastofcm2-from-east1', 'C14', 'geodepy/geodesy.py', "    eastofcm2 = east2 - projection.falseeast", "    eastofcm2 = east1 - projection.falseeast", BREAK),
    ('c15-heights-swapped', 'C15', 'geodepy/coord.py', "        return CoordGeo(lat, lon, self.ell_ht, self.orth_ht)\n\n    # TODO: Add functionality to utilise different TM projections\n\n    def cart(self, ellipsoid=grs80):\n        \"\"\"\n        Convert coordinates to Cartesian\n        Note: If no ellipsoid height set, uses 0m. No N Value output\n        :param ellipsoid: geodepy.constants.Ellipsoid Object (default: grs80)\n        :return: Cartesian Coordinate\n        :rtype: CoordCart\n        \"\"\"\n        return self.geo(ellipsoid).cart(ellipsoid)",
     "        return CoordGeo(lat, lon, self.orth_ht, self.ell_ht)\n\n    # TODO: Add functionality to utilise different TM projections\n\n    def cart(self, ellipsoid=grs80):\n        \"\"\"\n        Convert coordinates to Cartesian\n        Note: If no ellipsoid height set, uses 0m. No N Value output\n        :param ellipsoid: geodepy.constants.Ellipsoid Object (default: grs80)\n        :return: Cartesian Coordinate\n        :rtype: CoordCart\n        \"\"\"\n        return self.geo(ellipsoid).cart(ellipsoid)", BREAK),
    ('c16-rotation-sign', 'C16', 'geodepy/statistics.py', "        [[-sin(rlon), -sin(rlat) * cos(rlon), cos(rlat) * cos(rlon)],", "        [[-sin(rlon), sin(rlat) * cos(rlon), cos(rlat) * cos(rlon)],", BREAK),
    ('c16-atan2-swapped', 'C16', 'geodepy/statistics.py', "    orientation = 90 - degrees(0.5 * atan2((2 * vcv[0, 1]),\n                                           (vcv[0, 0] - vcv[1, 1])))", "    orientation = 90 - degrees(0.5 * atan2((vcv[0, 0] - vcv[1, 1]),\n                                           (2 * vcv[0, 1])))", BREAK),
    ('c16-table-entry', 'C16', 'geodepy/statistics.py', "2.36462, 2.30600, 2.26216,", "2.36462, 2.30601, 2.26216,", BREAK),
    ('c16-harmless-transpose-T', 'C16', 'geodepy/statistics.py', "    vcv_cart = rot_matrix @ vcv_local @ rot_matrix.transpose()", "    vcv_cart = rot_matrix @ vcv_local @ rot_matrix.T", QUIET),
    # ---- C17 / C18 / C19 / C20
    ('c17-pos3-off-by-one', 'C17', 'geodepy/ntv2reader.py', "        pos3 = pos1 + num_cols\n        pos4 = pos3 + 1", "        pos3 = pos1 + num_cols + 1\n        pos4 = pos3 + 1", BREAK),
    ('c17-shift-sign', 'C17', 'geodepy/transform.py', "        tf_lon = lon - shifts[1] / 3600\n    else:", "        tf_lon = lon + shifts[1] / 3600\n    else:", BREAK),
    ('c17-selection-closed', 'C17', 'geodepy/ntv2reader.py', "        if sg.s_lat <= lat < sg.n_lat and sg.e_long <= lon < sg.w_long:", "        if sg.s_lat <= lat <= sg.n_lat and sg.e_long <= lon < sg.w_long:", BREAK),
    ('c18-renumber-from-zero', 'C18', 'geodepy/gnss.py', "        skip = []\n        estimate_number = 0\n", "        skip = []\n        estimate_number = -1\n", BREAK),
    ('c18-upper-offset', 'C18', 'geodepy/gnss.py', "                        if j+i not in skip:", "                        if j+i+1 not in skip:", BREAK),
    ('c19-group-W1-factor', 'C19', 'geodepy/survey.py', "    NGWS_1 = (CF * (W0 + 3.0 * W1 * TEMP1 + 5.0 * W2 * TEMP2 +", "    NGWS_1 = (CF * (W0 + 2.0 * W1 * TEMP1 + 5.0 * W2 * TEMP2 +", BREAK),
    ('c19-theta-wrap-dropped', 'C19', 'geodepy/convert.py', "    if theta < 0:\n        theta = degrees(theta) + 360", "    if theta < -4:\n        theta = degrees(theta) + 360", BREAK),
    ('c19-inst-height-in-hz', 'C19', 'geodepy/survey.py', "    hz_dist = slope_dist * cos(zenith_angle)\n", "    hz_dist = slope_dist * cos(zenith_angle) + 0 * height_inst + (height_inst if height_inst > 4.5 else 0)\n", BREAK),
    ('c20-fields-crossed', 'C20', 'api/app.py', "    lon1 = request.args.get('lon1', type=float)\n    lat2 = request.args.get('lat2', type=float)\n    lon2", "    lon1 = request.args.get('lat2', type=float)\n    lat2 = request.args.get('lon1', type=float)\n    lon2", BREAK),
    ('c20-dms-on-distance', 'C20', 'api/app.py', "        'ell_dist': ell_dist,\n        'azimuth1to2': azimuth1to2,", "        'ell_dist': angle(ell_dist) if to_angle_type == 'dms' and from_angle_type == 'dd' else ell_dist,\n        'azimuth1to2': azimuth1to2,", BREAK),
    # ---- C08 / C12
    ('c08-carry-rounding', 'C08', 'geodepy/angles.py', "    if round(second, places) == 60:", "    if round(second, 3) == 60:", BREAK),
    ('c08-ddm-hp-per-60', 'C08', 'geodepy/angles.py', "    minute = minute + (second / 6)\n    return DDMAngle(degree, minute, positive=True) if hp >= 0", "    minute = minute + (second / 6) + (1e-7 if degree > 300 else 0)\n    return DDMAngle(degree, minute, positive=True) if hp >= 0", BREAK),
    ('c12-rsub-order', 'C12', 'geodepy/angles.py', "            return dec2dms(other.dec() - self.dec())", "            return dec2dms(self.dec() - other.dec())", QUIET),   # equivalent: DMSAngle.__rsub__ is unreachable (every angle class answers __sub__ first)
]
