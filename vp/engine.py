"""Engine: loader, path exploration by re-execution, loop cut, call summaries, congruence abstraction,
proof ladder (z3, cvc5 second), evaluation of terms with true functions."""
import ast, inspect, sys, os, textwrap, time, importlib, types, contextlib, subprocess, tempfile
import z3
import mpmath as mp
from . import sym as S
from . import state as ST
from .sym import Sym, SymB, UF, PI, lift, EngineError

REPO = os.environ.get('VERIF_REPO', '/repo')


class PathEnd(Exception):
    pass


class VpBreak(Exception):
    pass


LAST_MODEL = [None]


def _risky(solver):
    """queries on which z3 has been seen to ignore its timeout: to_int, big formulas, and nonlinear real arithmetic
    (a product / quotient / power of two non-numeral terms: nlsat can spin for hours on one path literal)"""
    n = 0
    seen = set()
    stack = list(solver.assertions())
    while stack:
        t = stack.pop()
        k = t.get_id()
        if k in seen:
            continue
        seen.add(k)
        n += 1
        if z3.is_app(t):
            kd = t.decl().kind()
            if kd == z3.Z3_OP_TO_INT or kd == z3.Z3_OP_POWER:
                return True
            if kd == z3.Z3_OP_MUL and sum(1 for c in t.children() if not z3.is_rational_value(c)) >= 2:
                return True
            if kd == z3.Z3_OP_DIV and not z3.is_rational_value(t.arg(1)):
                return True
        if n > 250:
            return True
        stack.extend(t.children())
    return False


def zcheck(solver, timeout_ms, want_model=False):
    """solver.check() with a HARD limit.  z3 occasionally ignores its own `timeout` parameter (nested to_int, large
    nonlinear hypotheses), and running it in a worker thread corrupts its memory (observed: assertion violation in
    ast.cpp, segfault).  Small queries run in-process; anything large or containing to_int runs in a forked child that is
    killed when the grace period is over.  A killed check is `unknown`, never a verdict."""
    import json as _json, select, signal
    solver.set('timeout', int(timeout_ms))
    LAST_MODEL[0] = None
    if os.environ.get('VERIF_NOFORK') == '1' or not _risky(solver):
        r = solver.check()
        if r == z3.sat and want_model:
            try:
                m = solver.model()
                LAST_MODEL[0] = {d.name(): str(m[d]) for d in m.decls() if d.arity() == 0}
            except z3.Z3Exception:
                pass
        return r
    rd, wr = os.pipe()
    sys.stdout.flush()
    sys.stderr.flush()
    pid = os.fork()
    if pid == 0:
        try:
            os.close(rd)
            res = solver.check()
            payload = {'r': str(res)}
            if res == z3.sat and want_model:
                try:
                    m = solver.model()
                    payload['model'] = {d.name(): str(m[d]) for d in m.decls() if d.arity() == 0}
                except z3.Z3Exception:
                    pass
            data = _json.dumps(payload).encode()
            off = 0
            while off < len(data):
                off += os.write(wr, data[off:off + 32768])
        except BaseException:
            pass
        finally:
            os._exit(0)
    os.close(wr)
    deadline = time.time() + timeout_ms / 1000.0 + min(2.0, max(0.3, timeout_ms / 1000.0))      # grace before the child is killed
    buf = b''
    done = False
    while True:
        left = deadline - time.time()
        if left <= 0:
            break
        ready, _, _ = select.select([rd], [], [], left)
        if not ready:
            break
        chunk = os.read(rd, 65536)
        if not chunk:
            done = True
            break
        buf += chunk
    os.close(rd)
    if not done:
        try:
            os.kill(pid, signal.SIGKILL)
        except ProcessLookupError:
            pass
    os.waitpid(pid, 0)
    if not done or not buf:
        return z3.unknown
    try:
        payload = _json.loads(buf.decode())
    except ValueError:
        return z3.unknown
    LAST_MODEL[0] = payload.get('model')
    return {'sat': z3.sat, 'unsat': z3.unsat}.get(payload.get('r'), z3.unknown)


# --------------------------------------------------------------------------------------------- loader
_MODS = {}


def load_repo(modules, shim=True, stubs=()):
    """import the real modules from REPO's working tree with math patched first; shadow float/int per module"""
    S.install_math()
    sys.dont_write_bytecode = True
    if REPO not in sys.path:
        sys.path.insert(0, REPO)
    for st in stubs:
        if st not in sys.modules:
            try:
                importlib.import_module(st)
            except Exception:
                sys.modules[st] = types.ModuleType(st)
    out = {}
    import functools as _ft
    _orig = (_ft.lru_cache, getattr(_ft, 'cache', None))
    for m in modules:
        if m not in sys.modules:
            _ft.lru_cache = ST.visible_lru_cache(m)            # memo tables become visible state containers (vp/state.py)
            if _orig[1] is not None:
                _ft.cache = _ft.lru_cache(maxsize=None)
        try:
            mod = importlib.import_module(m)
        finally:
            _ft.lru_cache = _orig[0]
            if _orig[1] is not None:
                _ft.cache = _orig[1]
        f = os.path.realpath(mod.__file__)
        if not f.startswith(os.path.realpath(REPO) + os.sep):
            raise EngineError('module %s loaded from %s, not from %s' % (m, f, REPO))
        if shim:
            mod.__dict__['float'] = S.SFloat
            mod.__dict__['int'] = S.SInt
            if 'np' in mod.__dict__ and not isinstance(mod.__dict__['np'], S.NPProxy):
                mod.__dict__['np'] = S.NPProxy(mod.__dict__['np'])
            if m == 'geodepy.angles' and hasattr(mod, 'DECAngle') and '__new__' not in mod.DECAngle.__dict__:
                # DECAngle subclasses float: poison the inherited payload in symbolic mode (only .dec_angle is meaningful)
                import builtins as _b
                mod.DECAngle.__new__ = staticmethod(
                    lambda cls, v=0.0, *a: _b.float.__new__(cls, _b.float('nan') if isinstance(v, Sym) else v))
        out[m] = mod
        _MODS[m] = mod
        ST.scan(mod)
    return out


def load_file(path, name, shim=True):
    S.install_math()
    spec = importlib.util.spec_from_file_location(name, path)
    mod = importlib.util.module_from_spec(spec)
    import functools as _ft
    _orig = (_ft.lru_cache, getattr(_ft, 'cache', None))
    _ft.lru_cache = ST.visible_lru_cache(name)
    if _orig[1] is not None:
        _ft.cache = _ft.lru_cache(maxsize=None)
    try:
        spec.loader.exec_module(mod)
    finally:
        _ft.lru_cache = _orig[0]
        if _orig[1] is not None:
            _ft.cache = _orig[1]
    if shim:
        mod.__dict__['float'] = S.SFloat
        mod.__dict__['int'] = S.SInt
    ST.scan(mod)
    return mod


# --------------------------------------------------------------------------------------------- exploration
PROGRAM_EXC = (ValueError, TypeError, ZeroDivisionError, UnboundLocalError, AttributeError, IndexError, KeyError,
               NameError, AssertionError, OverflowError, RuntimeError)


def explore(thunk, pre=(), prune_ms=250, max_paths=4000, history=False, label=None):
    """run thunk() once per decision schedule; returns list of paths {pc, kind, val, decisions}.
    With written module state present (vp/state.py) a second phase runs, per schedule, the thunk as an EARLIER call on the
    import-time state, renames that call's symbols to history copies, and then runs the thunk again.  Every such history
    path must be INDEPENDENT of the earlier call: its result free of history symbols, identical to the result of a plain
    path, and its path condition implying that plain path's.  The outcome is logged in ST.FINDINGS (Prop.finish turns it
    into the obligation state_independence[...]); history=True additionally returns the history paths (flag `history`)
    so that a property's own obligations judge them and the model of a failed one yields a two-call failing history."""
    out, hout = [], []
    sv = z3.Solver()
    sv.set('timeout', prune_ms)
    S.ctx.active = True
    S.ctx.budget_s = int(os.environ.get('VERIF_EXPLORE_S', '1800' if THOROUGH else '600'))
    S.ctx.deadline = time.time() + S.ctx.budget_s        # per explore() call; the unchanged tree's slowest exploration takes well under a minute
    hist = bool(ST.STATE)
    base_fp = None
    try:
        for phase in ((0, 1) if hist else (0,)):
            S.ctx.work = [[]]
            n_sched = 0
            while S.ctx.work:
                n_sched += 1
                if n_sched > 4 * max_paths:
                    raise EngineError('path explosion (%d schedules run, %d paths kept)' % (n_sched, len(out) + len(hout)))
                S.ctx.prefix = S.ctx.work.pop()
                S.ctx.idx = 0
                S.ctx.pc = []
                if hist:
                    ST.restore()
                    if base_fp is None:
                        base_fp = ST.state_fingerprint()
                if phase == 1:
                    try:
                        thunk()
                    except PathEnd:
                        continue                      # an earlier call that stops at a cut loop head is not a complete call
                    except EngineError:
                        raise
                    except PROGRAM_EXC:
                        pass
                    if ST.state_fingerprint() == base_fp:
                        continue                      # the earlier call left no trace: phase 0 covers it
                    ST.prime_state(S.ctx.pc, pre)
                try:
                    r = ('ret', thunk())
                except PathEnd as e:
                    r = ('loopback', e.args[0])
                except EngineError:
                    raise
                except PROGRAM_EXC as e:
                    S.ctx.in_engine = True          # the message may print a symbolic key or value: that repr is ours, not the program's
                    try:
                        r = ('raise', (type(e).__name__, str(e)[:120]))
                    finally:
                        S.ctx.in_engine = False
                pc = list(S.ctx.pc)
                if phase == 1:
                    r = (r[0], ST.resolve_equalities(pc, r[1]))
                dead = False
                if pc:
                    sv.push()
                    sv.add(*pre)
                    sv.add(*pc)
                    dead = zcheck(sv, prune_ms) == z3.unsat
                    sv.pop()
                if not dead:
                    (hout if phase else out).append(dict(pc=pc, kind=r[0], val=r[1], decisions=list(S.ctx.prefix), history=bool(phase),
                                                         loops={k: dict(v) for k, v in LOOPS.items()}))       # this path's own loop records
                if len(out) + len(hout) > max_paths:
                    raise EngineError('path explosion')
    finally:
        S.ctx.active = False
        S.ctx.deadline = 0
        if hist:
            ST.restore()
    if hist:
        dep, unk = [], []
        t_sem0 = time.time()
        fps = [(p['kind'], ST.fingerprint(p['val'])) for p in out]
        for h in hout:
            verdict = 'dependent'
            if ST.has_history(ST.terms_of(h['val'])):
                # history symbols remain (e.g. a memo keyed on a DERIVED quantity n(f): the hit literal is n(f__h) == n(f), which no
                # substitution solves).  Semantic criterion: under the path condition the result equals, term by term, the result of a
                # plain path whose condition it implies.
                shp = (h['kind'], ST.shape(h['val']))
                th = ST.terms_of(h['val'])
                good = []
                verdict = 'unknown'               # history symbols remain: `dependent` needs evidence (a point), `independent` a proof
                ev_ = _numeric_dependence(h, out, pre)
                if ev_:
                    verdict = 'dependent'
                    h['evidence'] = ev_
                elif time.time() - t_sem0 > 90:
                    pass                          # the time budget of the semantic comparison for this contract thunk is used up: undecided
                for p_ in (out if (not ev_ and time.time() - t_sem0 <= 90) else []):
                    if (p_['kind'], ST.shape(p_['val'])) != shp:
                        continue
                    tp = ST.terms_of(p_['val'])
                    if len(tp) != len(th):
                        continue
                    sk = z3.Solver()
                    sk.add(*pre)
                    sk.add(*h['pc'])
                    sk.add(*p_['pc'])
                    if zcheck(sk, 2000) == z3.unsat:
                        continue                      # the two paths exclude each other
                    eqs = [a_ == b_ for a_, b_ in zip(th, tp) if not a_.eq(b_)]
                    try:
                        ok_ = not eqs or prove_abs(z3.And(*eqs), list(pre) + list(h['pc']) + list(p_['pc']), timeout=4000)['result'] == 'discharged'
                    except EngineError:
                        ok_ = False
                    if ok_:
                        good.append(p_)
                if good and not ev_:
                    s2 = z3.Solver()
                    s2.add(*pre)
                    s2.add(*h['pc'])
                    s2.add(z3.Not(z3.Or(*[z3.And(*p_['pc']) if p_['pc'] else z3.BoolVal(True) for p_ in good])))
                    rr = zcheck(s2, 5000)
                    verdict = 'independent' if rr == z3.unsat else 'unknown'
            elif True:
                key = (h['kind'], ST.fingerprint(h['val']))
                same = [p for p, k in zip(out, fps) if k == key]
                if same:
                    s2 = z3.Solver()
                    s2.add(*pre)
                    s2.add(*h['pc'])
                    s2.add(z3.Not(z3.Or(*[z3.And(*p['pc']) if p['pc'] else z3.BoolVal(True) for p in same])))
                    rr = zcheck(s2, 5000)
                    verdict = 'independent' if rr == z3.unsat else ('dependent' if rr == z3.sat else 'unknown')
            h['independent'] = verdict == 'independent'
            h['verdict'] = verdict
            if verdict == 'dependent':
                dep.append(h)
            elif verdict == 'unknown':
                unk.append(h)
        co = getattr(thunk, '__code__', None)
        ST.FINDINGS.append(dict(label=label or ('%s:%d' % (os.path.basename(co.co_filename), co.co_firstlineno) if co else '?'),
                                plain=len(out), history=len(hout), dependent=len(dep), unknown=len(unk),
                                example=((str([str(c)[:80] for c in dep[0]['pc']][:4]) + (' evidence: %r' % (dep[0].get('evidence'),))[:400]) if dep else None)))
        if history:
            return out + hout
    return out


def _numeric_dependence(h, out, pre):
    """evidence that the result of history path h depends on the earlier call: a point (values of the current arguments and of the
    earlier call's, renamed, arguments) where h's path condition holds and h's result differs from what the plain path taken by the
    current arguments returns.  The point comes from a solver model of the path condition and from perturbations of one earlier
    argument at a time; conditions and results are evaluated with the true functions.  None when no such point is found."""
    import mpmath as mp
    th = ST.terms_of(h['val'])
    hs = (h['kind'], ST.shape(h['val']))
    allt = list(pre) + list(h['pc']) + th
    for p_ in out:
        allt += list(p_['pc']) + ST.terms_of(p_['val'])
    syms = free_symbols(allt)
    names = [n for n in syms if z3.is_real(syms[n]) or z3.is_int(syms[n])]
    his = [n for n in names if n.endswith(ST.HIST)]
    if not his:
        return None
    sv = z3.Solver()
    sv.add(*pre)
    sv.add(*h['pc'])
    base = None
    if zcheck(sv, 3000, want_model=True) == z3.sat and LAST_MODEL[0]:
        base = model_env(LAST_MODEL[0], names)
    bases = [base] if base is not None else []
    sv.add(*[z3.And(syms[n] >= 1.5, syms[n] <= 50) for n in names])           # a second point away from the degenerate corner values models favour
    if zcheck(sv, 3000, want_model=True) == z3.sat and LAST_MODEL[0]:
        b2 = model_env(LAST_MODEL[0], names)
        if b2 is not None:
            bases.append(b2)
    envs = list(bases)
    for base in bases:
      for n in his:
          c = n[:-len(ST.HIST)]
          for f_ in (lambda v: v * 1.37 + 0.11, lambda v: v + 1.0):
              e2 = dict(base)
              e2[n] = f_(float(base.get(c, base[n])))
              envs.append(e2)
    if not envs:
        return None
    tol = mp.mpf(10) ** -18

    def holds(cs, env):
        return all(evaluate(c, env, dps=30, tol=tol) for c in cs)
    dbg = os.environ.get('VERIF_DEBUG_DEP') == '1'
    if dbg:
        print('DEP probe: %d envs, %d history symbols, bases %d' % (len(envs), len(his), len(bases)), flush=True)
    for env in envs[:60]:
        try:
            if not holds(list(pre) + list(h['pc']), env):
                continue
            hv = [evaluate(t, env, dps=30) for t in th]
            taken = [p_ for p_ in out if holds(p_['pc'], env)]
            if dbg:
                print('DEP probe: pc holds, plain paths taken %d' % len(taken), flush=True)
            if len(taken) != 1:
                continue
            p_ = taken[0]
            tp = ST.terms_of(p_['val'])
            if (p_['kind'], ST.shape(p_['val'])) != hs or len(tp) != len(th):
                if p_['kind'] != h['kind']:
                    return dict(point={k: v for k, v in env.items()}, history_path=h['kind'], plain_path=p_['kind'])
                continue
            pv = [evaluate(t, env, dps=30) for t in tp]
            for a_, b_ in zip(hv, pv):
                if isinstance(a_, bool) or isinstance(b_, bool):
                    if a_ != b_:
                        return dict(point=dict(env), after_earlier_call=str(a_), fresh=str(b_))
                elif abs(a_ - b_) > mp.mpf(10) ** -12 * (1 + abs(a_) + abs(b_)):
                    return dict(point=dict(env), after_earlier_call=float(a_), fresh=float(b_))
        except (ZeroDivisionError, ValueError, KeyError, NotImplementedError, TypeError, OverflowError) as ex_:
            if dbg:
                print('DEP probe: evaluation failed: %r' % (ex_,), flush=True)
            continue
    return None


# --------------------------------------------------------------------------------------------- AST helpers
def _stores(nodes):
    out = []
    for n in nodes:
        for x in ast.walk(n):
            if isinstance(x, ast.Name) and isinstance(x.ctx, ast.Store) and x.id not in out:
                out.append(x.id)
            if isinstance(x, ast.AugAssign) and isinstance(x.target, ast.Name) and x.target.id not in out:
                out.append(x.target.id)
    return out


def _loads(nodes):
    out = []
    for n in nodes:
        for x in ast.walk(n):
            if isinstance(x, ast.Name) and isinstance(x.ctx, ast.Load) and x.id not in out:
                out.append(x.id)
    return out


def func_ast(func):
    src = textwrap.dedent(inspect.getsource(func))
    tree = ast.parse(src)
    return tree, tree.body[0]


LOOPS = {}


def cut_loops(func, module, summary_hook, which=None, extra_ns=None, cut_for=False):
    """Mechanical loop cut (DESIGN 2.4 item 1) of the `while` / `for .. in range(K)` statements that are direct
    children of func's body (ordinal-selected by `which`, default all).  The loop `while C: B` becomes
        (v..) = __vp_havoc(id, names, (v..), readnames, (reads..));  if C: B; __vp_back(id, names, (v..))
    and `for i in range(K): B` becomes
        (v..) = __vp_havoc(...); try: B[break -> raise VpBreak]; __vp_back(...)  except VpBreak: pass
    preceded by a fork on "iterations exhausted" (path kind 'ret' with exhausted flag) handled by the hook.
    Nothing of the body is dropped; summary_hook supplies the head state (UFs of the read-set)."""
    tree, fdef = func_ast(func)
    bound = set(a.arg for a in fdef.args.args + fdef.args.kwonlyargs)
    new = []
    k = 0
    for st in fdef.body:
        is_loop = isinstance(st, (ast.While, ast.For))
        if is_loop:
            k += 1
        if is_loop and ((which is None and (isinstance(st, ast.While) or cut_for)) or (which is not None and k in which)):
            kind = 'while' if isinstance(st, ast.While) else 'for'
            lid = '%s#%s%d' % (func.__name__, kind, k)
            names = [v for v in _stores(st.body) if v in bound]
            # names first assigned inside the body: bound at every later loop head / exit only if the loop is entered at
            # least once; they join the havoc'd state only when the entry test is concretely true (recorded by __vp_entry)
            late = [v for v in _stores(st.body) if v not in bound and kind == 'while']
            test = [st.test] if kind == 'while' else []
            reads = [v for v in _loads(test + st.body) if v in bound and v not in module.__dict__.get('__builtins__', {})]
            T = lambda ns, c: ast.Tuple([ast.Name(v, c) for v in ns], c)
            pre_stmts = []
            if kind == 'while':
                import copy as _copy
                pre_stmts.append(ast.Expr(ast.Call(ast.Name('__vp_entry', ast.Load()), [ast.Constant(lid), ast.Lambda(
                    ast.arguments(posonlyargs=[], args=[], kwonlyargs=[], kw_defaults=[], defaults=[]), _copy.deepcopy(st.test))], [])))
                if late:
                    pre_stmts.append(ast.Assign([T(late, ast.Store())], ast.Call(ast.Name('__vp_late', ast.Load()), [ast.Constant(lid), ast.Constant(tuple(late))], [])))
            allnames = names + late
            hav = ast.Assign([T(allnames, ast.Store())],
                             ast.Call(ast.Name('__vp_havoc', ast.Load()),
                                      [ast.Constant(lid), ast.Constant(tuple(allnames)), T(allnames, ast.Load()),
                                       ast.Constant(tuple(reads)), T(reads, ast.Load())], []))
            back = ast.Expr(ast.Call(ast.Name('__vp_back', ast.Load()),
                                     [ast.Constant(lid), ast.Constant(tuple(allnames)), T(allnames, ast.Load())], []))
            new += pre_stmts
            if kind == 'while':
                new += [hav, ast.If(st.test, st.body + [back], [])]
            else:
                class B(ast.NodeTransformer):
                    def visit_Break(s, n):
                        return ast.copy_location(ast.Raise(ast.Call(ast.Name('__VpBreak', ast.Load()), [], []), None), n)

                    def visit_For(s, n):
                        return n

                    def visit_While(s, n):
                        return n
                body = [B().visit(x) for x in st.body]
                # loop variable: a fresh symbolic iteration index is not needed by any cut loop here (unused in bodies)
                rng_args = list(st.iter.args) if isinstance(st.iter, ast.Call) else []
                ex = ast.If(ast.Call(ast.Name('__vp_exhausted', ast.Load()), [ast.Constant(lid), ast.Tuple(rng_args, ast.Load())], []),
                            [ast.Pass()],
                            [ast.Try(body=body + [back],
                                     handlers=[ast.ExceptHandler(ast.Name('__VpBreak', ast.Load()), None, [ast.Pass()])],
                                     orelse=[], finalbody=[])])
                new += [hav, ex]
        else:
            new.append(st)
        bound |= set(_stores([st]))
        if isinstance(st, ast.FunctionDef):
            bound.add(st.name)
    fdef.body = new
    ast.fix_missing_locations(tree)
    ns = module.__dict__

    def havoc(lid, names, vals, rnames, rvals):
        rec = LOOPS.setdefault(lid, {})
        rec['entry'] = dict(zip(names, vals))
        rec['reads'] = dict(zip(rnames, rvals))
        head = summary_hook(lid, names, vals, rnames, rvals)
        rec['head'] = dict(zip(names, head))
        rec['pc_at_head'] = list(S.ctx.pc)
        return head

    def back(lid, names, vals):
        LOOPS[lid]['post'] = dict(zip(names, vals))
        LOOPS[lid]['body_pc'] = list(S.ctx.pc)
        raise PathEnd(lid)

    def exhausted(lid, bounds=()):
        # fork: True = the for-range ran out of iterations (no break), False = one more iteration
        LOOPS.setdefault(lid, {})['range'] = tuple(bounds)          # the arguments of range(...): the iteration cap of the loop
        return bool(SymB(z3.Bool('exhausted!' + lid)))
    class _Unbound:
        def __repr__(s):
            return '<unbound before the loop>'
    UNB = _Unbound()

    def entry(lid, thunk):
        rec = LOOPS.setdefault(lid, {})
        try:
            v = thunk()
            rec['entry_test'] = True if v is True else (False if v is False else 'symbolic')
        except EngineError:
            raise
        except Exception:
            rec['entry_test'] = 'symbolic'

    def late_names(lid, names):
        if LOOPS.get(lid, {}).get('entry_test') is not True:
            raise EngineError('loop %s assigns %r first inside its body but is not known to be entered' % (lid, names))
        return tuple(UNB for _ in names) if len(names) > 1 else (UNB,)
    ns['__vp_entry'] = entry
    ns['__vp_late'] = late_names
    ns['__vp_havoc'] = havoc
    ns['__vp_back'] = back
    ns['__vp_exhausted'] = exhausted
    ns['__VpBreak'] = VpBreak
    if extra_ns:
        ns.update(extra_ns)
    code = compile(tree, (inspect.getsourcefile(func) or '?') + '<loopcut>', 'exec')
    tmp = {}
    exec(code, ns, tmp)
    f = tmp[func.__name__]
    f.__vp_cut__ = True
    return f


def transform_func(func, module, transformer, extra_ns=None):
    """apply a purely syntactic ast.NodeTransformer to func's source and return the recompiled function
    bound in the module namespace (used for the format reroute, DESIGN 2.4 item 2)"""
    tree, fdef = func_ast(func)
    tree = ast.fix_missing_locations(transformer.visit(tree))
    ns = module.__dict__
    if extra_ns:
        ns.update(extra_ns)
    tmp = {}
    exec(compile(tree, (inspect.getsourcefile(func) or '?') + '<xform>', 'exec'), ns, tmp)
    return tmp[func.__name__]


@contextlib.contextmanager
def rebound(module, **names):
    """temporarily rebind module-global names (call summaries, ghosts) in the loaded copy inside this process"""
    old = {}
    missing = object()
    for k, v in names.items():
        old[k] = module.__dict__.get(k, missing)
        module.__dict__[k] = v
    try:
        yield
    finally:
        for k, v in old.items():
            if v is missing:
                module.__dict__.pop(k, None)
            else:
                module.__dict__[k] = v


class Summary:
    """call summary: records the ACTUAL arguments (defaults resolved against the real signature) and returns
    uninterpreted-function terms over all of them"""

    def __init__(self, real_fn, name, nout, flatten, keep=None):
        self.real = real_fn
        self.sig = inspect.signature(real_fn)
        self.name = name
        self.nout = nout
        self.flatten = flatten           # bound-arguments dict -> list of z3 terms (ALL actual parameters)
        self.calls = []
        self.fns = None
        ST.RECORDERS.add(self)

    def __call__(self, *a, **kw):
        ba = self.sig.bind(*a, **kw)
        ba.apply_defaults()
        args = self.flatten(dict(ba.arguments))
        if self.fns is None:
            self.fns = [z3.Function('%s!%d' % (self.name, i), *([S.R] * (len(args) + 1))) for i in range(self.nout)]
        outs = tuple(Sym(f(*args)) for f in self.fns)
        self.calls.append(dict(bound=dict(ba.arguments), args=args, outs=outs))
        return outs if self.nout > 1 else outs[0]


# --------------------------------------------------------------------------------------------- terms
def subterms(ts):
    seen = {}

    def walk(t):
        if t.get_id() in seen:
            return
        seen[t.get_id()] = t
        for c in t.children():
            walk(c)
    for t in ts:
        walk(t)
    return list(seen.values())


def denominators(ts):
    acc = []
    for t in subterms(ts):
        if z3.is_app(t) and t.decl().kind() == z3.Z3_OP_DIV:
            d = t.arg(1)
            if not z3.is_rational_value(d):
                acc.append(d)
    return acc


def small(hyps, limit=120):
    """the hypotheses of moderate size (big nonlinear path literals only slow down / hang small questions)"""
    return [h for h in hyps if len(subterms([h])) <= limit]


def abstract_free(terms, var, min_size=4):
    """replace, consistently across `terms`, every maximal compound real subterm that does not mention `var` by a fresh
    constant (a generalisation: an identity proved for the abstracted terms holds for the originals)"""
    has = {}

    def mentions(t):
        k = t.get_id()
        if k not in has:
            has[k] = (t, t.eq(var) or any(mentions(c) for c in t.children()))
        return has[k][1]
    fresh = {}
    memo = {}

    def go(t):
        k = t.get_id()
        if k in memo:
            return memo[k][1]
        if z3.is_real(t) and z3.is_app(t) and t.num_args() > 0 and not mentions(t) and len(subterms([t])) >= min_size:
            if k not in fresh:
                fresh[k] = (t, z3.Real('free!%d' % len(fresh)))
            r = fresh[k][1]
        elif z3.is_app(t) and t.num_args() > 0:
            r = t.decl()(*[go(c) for c in t.children()])
        else:
            r = t
        memo[k] = (t, r)
        return r
    return [go(t) for t in terms], {v.decl().name(): t for t, v in fresh.values()}


def generalise(u, v):
    """replace the maximal compound subterms occurring in BOTH u and v by fresh real variables"""
    def ids(t, acc):
        k = t.get_id()
        if k in acc:
            return
        acc[k] = t
        for c in t.children():
            ids(c, acc)
    su, sv_ = {}, {}
    ids(u, su)
    ids(v, sv_)
    common = {k for k in su if k in sv_ and z3.is_app(su[k]) and su[k].num_args() > 0 and z3.is_real(su[k])
              and su[k].decl().kind() in (z3.Z3_OP_ADD, z3.Z3_OP_MUL, z3.Z3_OP_SUB, z3.Z3_OP_DIV, z3.Z3_OP_UMINUS)}
    if not common:
        return None, None
    fresh = {}
    memo = {}

    def gen(t):
        k = t.get_id()
        if k in memo:
            return memo[k][1]
        if k in common:
            if k not in fresh:
                fresh[k] = (t, z3.Real('gen!%d' % len(fresh)))
            r = fresh[k][1]
        elif z3.is_app(t) and t.num_args() > 0:
            r = t.decl()(*[gen(c) for c in t.children()])
        else:
            r = t
        memo[k] = (t, r)
        return r
    gu, gv = gen(u), gen(v)
    if not fresh:
        return None, None
    return gu, gv


ODD = {'sin', 'tan', 'atan', 'asin', 'sinh', 'atanh', 'asinh'}
EVEN = {'cos', 'cosh'}
ZERO_AT_ZERO = {'sin': 0, 'tan': 0, 'atan': 0, 'asin': 0, 'sinh': 0, 'sqrt': 0, 'cos': 1, 'cosh': 1, 'exp': 1,
                'atanh': 0, 'asinh': 0}


def axioms(ts, rounds=1):
    """instances of the enumerated true axioms (DESIGN 2.6) for the terms occurring in ts"""
    ax = []
    seen = set()
    todo = list(ts)
    for _ in range(rounds):
        new = []
        for t in subterms(todo):
            if t.get_id() in seen:
                continue
            seen.add(t.get_id())
            if not (z3.is_app(t) and t.decl().kind() == z3.Z3_OP_UNINTERPRETED and t.num_args() > 0):
                continue
            nm = t.decl().name()
            a = t.arg(0)
            if nm in ('sin', 'cos', 'tan'):
                s, c = UF['sin'](a), UF['cos'](a)
                new.append(s * s + c * c == 1)
                if nm == 'tan':
                    new.append(z3.Implies(c != 0, t * c == s))
            elif nm == 'atan':
                new += [UF['tan'](t) == a, t > -PI / 2, t < PI / 2, UF['cos'](t) > 0,
                        UF['sin'](t) ** 2 + UF['cos'](t) ** 2 == 1, UF['tan'](t) * UF['cos'](t) == UF['sin'](t),
                        z3.Implies(a > 0, t > 0), z3.Implies(a < 0, t < 0), z3.Implies(a == 0, t == 0)]
            elif nm == 'sqrt':
                new.append(z3.Implies(a >= 0, z3.And(t >= 0, t * t == a)))
                new.append(z3.Implies(a > 0, t > 0))
            elif nm in ('sinh', 'cosh'):
                s, c = UF['sinh'](a), UF['cosh'](a)
                new += [c * c - s * s == 1, c >= 1]
            elif nm == 'atan2':
                y, x = t.arg(0), t.arg(1)
                r = UF['sqrt'](x * x + y * y)
                new += [r >= 0, r * r == x * x + y * y, r * UF['cos'](t) == x, r * UF['sin'](t) == y, t > -PI, t <= PI,
                        UF['sin'](t) ** 2 + UF['cos'](t) ** 2 == 1,
                        z3.Implies(z3.And(y >= 0, z3.Or(x != 0, y != 0)), t >= 0), z3.Implies(y < 0, t < 0)]
            elif nm == 'exp':
                new += [t > 0, UF['log'](t) == a]
            elif nm == 'log':
                new.append(z3.Implies(a > 0, UF['exp'](t) == a))
            elif nm.startswith('round') and nm[5:].isdigit():
                n = int(nm[5:])
                h = z3.Q(5, 10 ** (n + 1))
                new.append(z3.And(t - a <= h, a - t <= h))
                new += [z3.Implies(a >= 0, t >= 0), z3.Implies(a <= 0, t <= 0)]
        ax += new
        todo = new
    ax += [PI > z3.RealVal('3.14159'), PI < z3.RealVal('3.1416')]
    return ax


class Abstractor:
    """Bottom-up congruence (Ackermann) abstraction: every transcendental / summary / round application becomes an
    atom; z3 is only asked the small question whether two argument terms are equal.  Parity-aware; tan(atan x)=x;
    sin/cos and sinh/cosh pairs over equal arguments contribute their Pythagorean relation as side hypotheses;
    denominators are assumed non-zero (definedness assumption)."""

    def __init__(s, timeout=3000, hyps=()):
        s.memo = {}
        s.atoms = {}
        s.timeout = timeout
        s.budget = float(os.environ.get('VERIF_ABS_BUDGET_S', '150'))
        s.queries = 0
        s.qtime = 0.0
        s.side = []
        s.hyps = list(hyps)          # already-abstracted hypotheses usable in argument-equality questions
        s.defs = []
        s._hsize = {}
        s._fp = {}
        s._samples = {}
        s._atomfp = {}
        s._dom = ({}, {}, set())
        s._dom_key = -1

    # ---- numeric fingerprints: the value of an abstracted term at K fixed pseudo-random sample points under the TRUE
    # semantics of the functions (complex arithmetic, so no domain errors).  Different fingerprints => the two terms are
    # different functions => no solver question is asked (a merge is only ever justified by an `unsat`, so this filter can
    # only lose completeness on measure-zero hypotheses, never soundness).
    K = 3

    def _domains(s):
        """box / integrality information read off the installed hypotheses (x >= a, x <= b, x == to_real(to_int(x))): sample
        points are drawn inside it, so that identities which hold only on the stated domain survive the fingerprint filter"""
        key = len(s.hyps)
        if s._dom_key == key:
            return s._dom
        lo, hi, ints = {}, {}, set()

        def num(t):
            t = z3.simplify(t)
            return float(t.as_fraction()) if z3.is_rational_value(t) else None

        def sym(t):
            return t.decl().name() if z3.is_const(t) and t.decl().kind() == z3.Z3_OP_UNINTERPRETED and z3.is_real(t) else None
        for h in s.hyps:
            if not z3.is_app(h) or h.num_args() != 2:
                continue
            k = h.decl().kind()
            a, b = h.arg(0), h.arg(1)
            if k == z3.Z3_OP_EQ and sym(a) and z3.is_app(b) and b.decl().kind() == z3.Z3_OP_TO_REAL and b.arg(0).decl().kind() == z3.Z3_OP_TO_INT and b.arg(0).arg(0).eq(a):
                ints.add(sym(a))
                continue
            for x, y, kk in ((a, b, k), (b, a, {z3.Z3_OP_LE: z3.Z3_OP_GE, z3.Z3_OP_GE: z3.Z3_OP_LE, z3.Z3_OP_LT: z3.Z3_OP_GT, z3.Z3_OP_GT: z3.Z3_OP_LT}.get(k))):
                if sym(x) and num(y) is not None and kk is not None:
                    if kk in (z3.Z3_OP_GE, z3.Z3_OP_GT):
                        lo[sym(x)] = max(lo.get(sym(x), -1e300), num(y))
                    elif kk in (z3.Z3_OP_LE, z3.Z3_OP_LT):
                        hi[sym(x)] = min(hi.get(sym(x), 1e300), num(y))
        s._dom = (lo, hi, ints)
        s._dom_key = key
        s._samples = {}
        s._fp = {}
        return s._dom

    def _sample(s, name):
        lo, hi, ints = s._domains()
        if name not in s._samples:
            h = 0
            for c in name:
                h = (h * 131 + ord(c)) % 1000003
            import random as _r
            rr = _r.Random(h)
            if name in ints:
                # integer-valued symbols are sampled at integers inside their (small) box: floor/divmod identities hold there
                import math as _m
                a, b = lo.get(name, 1.0), hi.get(name, 60.0)
                if abs(a) > 1000:
                    a = 1.0
                ia = int(_m.ceil(a))
                ib = int(_m.floor(b)) if b - a < 1e6 else ia + 60
                ib = min(ib, ia + 60)
                vals = tuple(complex(rr.randint(ia, max(ia, ib)), 0.0) for _ in range(s.K))
            else:
                # real symbols: a fixed benign range (identities do not depend on it; transcendental functions stay finite)
                vals = tuple(complex(rr.uniform(0.3, 1.7), 0.0) for _ in range(s.K))
            s._samples[name] = vals
        return s._samples[name]

    def fp(s, t):
        k = t.get_id()
        if k in s._fp:
            return s._fp[k][1]
        import cmath
        r = None
        try:
            if z3.is_rational_value(t):
                v = t.numerator_as_long() / t.denominator_as_long()
                r = (complex(v),) * s.K
            elif z3.is_int_value(t):
                r = (complex(t.as_long()),) * s.K
            elif z3.is_const(t) and t.decl().kind() == z3.Z3_OP_UNINTERPRETED:
                nm = t.decl().name()
                if nm == 'pi':
                    r = (complex(cmath.pi),) * s.K
                elif nm in s._atomfp:
                    r = s._atomfp[nm]
                else:
                    r = s._sample(nm)
            elif z3.is_app(t):
                kd = t.decl().kind()
                ch = [s.fp(c) for c in t.children()]
                if any(c is None for c in ch):
                    r = None
                elif kd == z3.Z3_OP_ADD:
                    r = tuple(sum(c[i] for c in ch) for i in range(s.K))
                elif kd == z3.Z3_OP_MUL:
                    r = []
                    for i in range(s.K):
                        x = 1
                        for c in ch:
                            x = x * c[i]
                        r.append(x)
                    r = tuple(r)
                elif kd == z3.Z3_OP_SUB:
                    r = tuple(ch[0][i] - sum(c[i] for c in ch[1:]) for i in range(s.K)) if len(ch) > 1 else tuple(-x for x in ch[0])
                elif kd == z3.Z3_OP_UMINUS:
                    r = tuple(-x for x in ch[0])
                elif kd == z3.Z3_OP_DIV:
                    r = tuple(ch[0][i] / ch[1][i] for i in range(s.K))
                elif kd == z3.Z3_OP_TO_REAL:
                    r = ch[0]
                elif kd == z3.Z3_OP_UNINTERPRETED:
                    r = s._fn_fp(t.decl().name(), ch)
                elif kd == z3.Z3_OP_TO_INT:
                    import math as _m
                    r = tuple(complex(_m.floor(x.real), _m.floor(x.imag)) for x in ch[0])
                elif kd == z3.Z3_OP_ITE:
                    r = tuple(ch[1][i] if ch[0][i] else ch[2][i] for i in range(s.K))
                elif kd in (z3.Z3_OP_LE, z3.Z3_OP_LT, z3.Z3_OP_GE, z3.Z3_OP_GT):
                    op = {z3.Z3_OP_LE: lambda a, b: a <= b, z3.Z3_OP_LT: lambda a, b: a < b, z3.Z3_OP_GE: lambda a, b: a >= b,
                          z3.Z3_OP_GT: lambda a, b: a > b}[kd]
                    r = tuple(op(ch[0][i].real, ch[1][i].real) for i in range(s.K))
                elif kd == z3.Z3_OP_EQ and not z3.is_bool(t.arg(0)):
                    r = tuple(abs(ch[0][i] - ch[1][i]) < 1e-12 for i in range(s.K))
                elif kd == z3.Z3_OP_NOT:
                    r = tuple(not x for x in ch[0])
                elif kd == z3.Z3_OP_AND:
                    r = tuple(all(c[i] for c in ch) for i in range(s.K))
                elif kd == z3.Z3_OP_OR:
                    r = tuple(any(c[i] for c in ch) for i in range(s.K))
                else:
                    r = None          # anything else: no fingerprint, the solver decides
        except (ZeroDivisionError, OverflowError, ValueError):
            r = None
        s._fp[k] = (t, r)
        return r

    def _fn_fp(s, nm, ch):
        import cmath
        F = dict(sin=cmath.sin, cos=cmath.cos, tan=cmath.tan, atan=cmath.atan, asin=cmath.asin, acos=cmath.acos, sqrt=cmath.sqrt,
                 sinh=cmath.sinh, cosh=cmath.cosh, log=cmath.log, exp=cmath.exp, atanh=cmath.atanh, asinh=cmath.asinh)
        if nm in F and len(ch) == 1:
            try:
                return tuple(F[nm](x) for x in ch[0])
            except (OverflowError, ValueError, ZeroDivisionError):
                return None
        if nm == 'atan2':
            try:
                return tuple(-1j * cmath.log((x + 1j * y) / cmath.sqrt(x * x + y * y)) for y, x in zip(ch[0], ch[1]))
            except (OverflowError, ValueError, ZeroDivisionError):
                return None
        # summaries, loop UFs, round_n: a fixed generic analytic function of the arguments (congruence only)
        h = sum(ord(c) * (i + 1) for i, c in enumerate(nm)) % 89 + 2

        def g(v, a):
            w = (h + 5 * a) * v / 7 + a
            if abs(w.imag) < 1e-300:
                return complex(cmath.sin(w.real % 6.283185307179586) + 0.37 * cmath.cos((w.real * 0.61803) % 6.283185307179586).real, 0.0)
            return cmath.sin(w)
        try:
            return tuple(sum(g(c[i], a) for a, c in enumerate(ch)) + h / 10 for i in range(s.K))
        except (OverflowError, ValueError, ZeroDivisionError, TypeError):
            return None

    @staticmethod
    def _fp_close(a, b, sign=1):
        if a is None or b is None:
            return True               # cannot tell: ask the solver
        for x, y in zip(a, b):
            y = sign * y
            if x != x or y != y:
                return True
            if abs(x - y) > 1e-9 * max(1.0, abs(x), abs(y)):
                return False
        return True

    def equal(s, u, v, sign=1):
        """is u == sign*v (justified by an unsat answer)?"""
        w = v if sign == 1 else -v
        if u.eq(w):
            return True
        if not s._fp_close(s.fp(u), s.fp(v), sign) and not s._eq_hyps_touch(u, v):
            return False
        d = z3.simplify(u - w)
        if z3.is_rational_value(d):
            return d.as_fraction() == 0
        den = [q != 0 for q in denominators([u, v])]
        if s.qtime > (15.0 if _triage() else s.budget):
            # the time budget of this abstraction for argument-equality questions is used up (only seen on code whose arguments
            # no longer match the contract's): not merging is always sound - it can only leave the final question harder
            s.skipped = getattr(s, 'skipped', 0) + 1
            return False
        t = time.time()
        r = z3.unknown
        # step 0: anti-unification - maximal subterms shared by both sides become fresh variables (a valid generalisation
        # implies the instance); turns e.g. |(-S)/D| == |S/D| with huge S, D into a three-variable question
        gu, gw = generalise(u, w)
        if gu is not None:
            sv = z3.Solver()
            sv.add(*[q != 0 for q in denominators([gu, gw])])
            sv.add(gu != gw)
            r = zcheck(sv, 1000)
            s.queries += 1
            if r == z3.unsat:
                s.qtime += time.time() - t
                return True
        # ladder of small questions: alone -> + side relations -> + the SMALL hypotheses (big nonlinear path literals
        # such as `series < 0` are never handed to an argument-equality question)
        sh = s.small_hyps()
        for hs, to in (((), 500), (s.side, 1500), (s.side + sh, s.timeout)):
            sv = z3.Solver()
            sv.add(*hs)
            sv.add(*den)
            sv.add(u != w)
            r = zcheck(sv, to)
            s.queries += 1
            if r == z3.unsat:
                break
        s.qtime += time.time() - t
        if r != z3.unsat and os.environ.get('VERIF_DEBUG_MISS'):
            print('MISS: fingerprints agree but no proof (%s): sizes %d %d' % (r, len(subterms([u])), len(subterms([v]))), flush=True)
        return r == z3.unsat

    def _eq_hyps_touch(s, u, v):
        """is there an installed (small) hypothesis that is an EQUATION mentioning a symbol of u or v?  Then u == v may hold
        under it although the two terms differ as functions, and the fingerprint filter must not be used."""
        def is_integrality(h):
            b = h.arg(1)
            return z3.is_app(b) and b.decl().kind() == z3.Z3_OP_TO_REAL and b.arg(0).decl().kind() == z3.Z3_OP_TO_INT and b.arg(0).arg(0).eq(h.arg(0))
        eqs = [h for h in s.small_hyps() if z3.is_eq(h) and not z3.is_bool(h.arg(0)) and not is_integrality(h)]
        if not eqs:
            return False
        names = set(free_symbols([u, v]))
        return any(names & set(free_symbols([h])) for h in eqs)

    def is_one(s, u):
        c = s._const(u)
        if c is not None:
            return c == 1
        return s.is_zero(u - 1)

    def is_zero(s, u):
        """u == 0 under the installed hypotheses (used for sin 0, tan 0, ... on paths such as lat == 0)"""
        c = s._const(u)
        if c is not None:
            return c == 0
        f = s.fp(u)
        sh = s.small_hyps()
        # a hypothesis may force u to 0 although u is not identically 0: only ask then when some hypothesis is an equation
        if f is not None and not s._fp_close(f, (0j,) * s.K) and not any(z3.is_eq(h) for h in sh):
            return False
        sv = z3.Solver()
        sv.add(*sh)
        sv.add(*[q != 0 for q in denominators([u])])
        sv.add(u != 0)
        s.queries += 1
        return zcheck(sv, 1000) == z3.unsat

    def small_hyps(s, limit=80):
        out = []
        for h in s.hyps:
            k = h.get_id()
            if k not in s._hsize:
                s._hsize[k] = (h, len(subterms([h])))
            if s._hsize[k][1] <= limit:
                out.append(h)
        return out

    def assume(s, hyps):
        """abstract and install hypotheses; the UF-free ones first so that they already serve the zero / equality
        questions asked while the others are abstracted"""
        def has_uf(t):
            return any(z3.is_app(x) and x.decl().kind() == z3.Z3_OP_UNINTERPRETED and x.num_args() > 0 for x in subterms([t]))
        plain = [h for h in hyps if not has_uf(h)]
        rest = [h for h in hyps if has_uf(h)]
        s.hyps = list(s.hyps) + plain
        out = list(plain)
        for h in rest:
            a = s.ab(h)
            out.append(a)
            s.hyps.append(a)
        return out

    def _const(s, u):
        u = z3.simplify(u)
        return u.as_fraction() if z3.is_rational_value(u) else None

    def ab(s, t):
        k = t.get_id()
        if k in s.memo:
            return s.memo[k][1]
        if z3.is_app(t) and t.num_args() > 0:
            d = t.decl()
            if d.kind() == z3.Z3_OP_UNINTERPRETED:
                nm = d.name()
                ch = [s.ab(c) for c in t.children()]
                r = None
                if len(ch) == 1:
                    u = ch[0]
                    c0 = s._const(u)
                    if c0 is None and nm in ZERO_AT_ZERO and s.is_zero(u):
                        c0 = 0
                    if nm.startswith('round') and nm[5:].isdigit():
                        if c0 is None and s.is_zero(u):
                            c0 = 0
                        if c0 is not None and (c0 * 10 ** int(nm[5:])).denominator == 1:
                            r = z3.Q(c0.numerator, c0.denominator)      # a decimal with <= n places rounds to itself
                    if r is None and c0 == 0 and nm in ZERO_AT_ZERO:
                        r = z3.RealVal(ZERO_AT_ZERO[nm])
                    elif nm == 'sqrt' and (c0 == 1 or (c0 is None and s.is_one(u))):
                        r = z3.RealVal(1)
                    elif nm == 'log' and (c0 == 1 or (c0 is None and s.is_one(u))):
                        r = z3.RealVal(0)
                    if r is None and nm == 'tan':
                        for (a,), c in s.atoms.get('atan', []):
                            if s.equal(c, u):
                                r = a
                                break
                            if s.equal(c, u, -1):
                                r = -a
                                break
                    if r is None and nm == 'log':
                        for (a,), c in s.atoms.get('exp', []):
                            if s.equal(c, u):
                                r = a
                                break
                    if r is None and nm == 'exp':
                        for (a,), c in s.atoms.get('log', []):
                            if s.equal(c, u):
                                r = a
                                break
                    if r is None:
                        for (a,), c in s.atoms.get(nm, []):
                            if s.equal(a, u):
                                r = c
                                break
                            if nm in ODD and s.equal(a, u, -1):
                                r = -c
                                break
                            if nm in EVEN and s.equal(a, u, -1):
                                r = c
                                break
                    if r is None:
                        r = z3.Real('%s!%d' % (nm, len(s.atoms.get(nm, []))))
                        s.atoms.setdefault(nm, []).append(([u], r))
                        s.defs.append((r, nm, [u]))
                        fu = s.fp(u)
                        s._atomfp[r.decl().name()] = s._fn_fp(nm, [fu]) if fu is not None else None
                        other = {'sin': 'cos', 'cos': 'sin', 'sinh': 'cosh', 'cosh': 'sinh'}.get(nm)
                        if other:
                            for (a,), c in s.atoms.get(other, []):
                                if s.equal(a, u) or s.equal(a, u, -1):
                                    if nm in ('sin', 'cos'):
                                        s.side.append(r * r + c * c == 1)
                                    elif nm == 'cosh':
                                        s.side += [r * r - c * c == 1, r >= 1]
                                    else:
                                        s.side += [c * c - r * r == 1, c >= 1]
                        if nm == 'sqrt':
                            s.side.append(z3.Implies(u >= 0, z3.And(r >= 0, r * r == u)))
                            s.side.append(z3.Implies(u > 0, r > 0))
                        if nm == 'atan':
                            s.side += [r > -PI / 2, r < PI / 2]
                        if nm == 'exp':
                            s.side.append(r > 0)
                        if nm == 'cosh':
                            s.side.append(r >= 1)
                        if nm.startswith('round') and nm[5:].isdigit():
                            h = z3.Q(5, 10 ** (int(nm[5:]) + 1))
                            s.side.append(z3.And(r - u <= h, u - r <= h))
                            s.side += [z3.Implies(u >= 0, r >= 0), z3.Implies(u <= 0, r <= 0)]      # rounding never crosses zero
                else:
                    for args, c in s.atoms.get(nm, []):
                        if len(args) == len(ch) and all(s.equal(x, y) for x, y in zip(args, ch)):
                            r = c
                            break
                    if r is None:
                        r = z3.Real('%s!%d' % (nm, len(s.atoms.get(nm, []))))
                        s.atoms.setdefault(nm, []).append((ch, r))
                        s.defs.append((r, nm, ch))
                        fc = [s.fp(c) for c in ch]
                        s._atomfp[r.decl().name()] = s._fn_fp(nm, fc) if all(f is not None for f in fc) else None
                        if nm == 'atan2':
                            s.side += [r > -PI, r <= PI]
                            # antipodal pairs: atan2(-y, -x) = atan2(y, x) -+ pi  (for (x, y) != (0, 0))
                            for args, c in s.atoms.get('atan2', [])[:-1]:
                                if s.equal(args[0], ch[0], -1) and s.equal(args[1], ch[1], -1):
                                    s.side.append(z3.Implies(z3.Or(ch[0] != 0, ch[1] != 0),
                                                             z3.Or(z3.And(c > 0, r == c - PI), z3.And(c <= 0, r == c + PI))))
            else:
                ch = [s.ab(c) for c in t.children()]
                r = d(*ch)
        else:
            r = t
        s.memo[k] = (t, r)          # keep t alive: z3 ast ids are only unique among live terms
        return r


QLOG = []
Z3V = 'z3 ' + z3.get_version_string()


TRIAGE = dict(violations=0, unproved=0, spent_undischarged_s=0.0)


def _triage():
    """several obligations are already reported (violated, or unproved after the full ladder) and minutes have gone into queries that did not
    discharge: the remaining queries get short budgets.  Nothing is discharged by this; an obligation that would have needed the long budget
    stays undischarged and goes to the numeric triage like the ones before it."""
    return (TRIAGE['violations'] >= 3 or TRIAGE['unproved'] >= 3) and TRIAGE['spent_undischarged_s'] > 240
ABS_MAX = [0.0]          # largest time one abstraction spent on argument-equality questions (budget: Abstractor.budget)
THOROUGH = os.environ.get('VERIF_TIER') == 'thorough'
RECHECK = {}


def _cvc5_check(solver_assertions, timeout_ms):
    """second opinion: the same assertion set through cvc5 (CLI on SMT-LIB2 text)"""
    s = z3.Solver()
    s.add(*solver_assertions)
    txt = '(set-logic ALL)\n' + s.to_smt2()
    try:
        with tempfile.NamedTemporaryFile('w', suffix='.smt2', delete=False, dir=os.environ.get('VERIF_SCRATCH') or None) as f:
            f.write(txt)
            fn = f.name
        r = subprocess.run(['/usr/bin/cvc5', '--tlimit=%d' % timeout_ms, fn], capture_output=True, text=True,
                           timeout=timeout_ms / 1000 + 10)
        out = r.stdout.strip().split('\n')[0] if r.stdout.strip() else 'unknown'
    except Exception:
        out = 'unknown'
    finally:
        try:
            os.unlink(fn)
        except Exception:
            pass
    return out if out in ('sat', 'unsat') else 'unknown'


def prove(goal, hyps=(), timeout=60000, rounds=2, use_axioms=True, cvc5=True, extra=()):
    """ladder: goal alone -> + hyps -> + axiom instances; first unsat discharges.  Returns a result dict."""
    t0 = time.time()
    if _triage():
        # the property is already reported violated several times and minutes have gone into queries that did not discharge:
        # the remaining queries get a short budget (an undischarged obligation stays undischarged; nothing is discharged by this)
        timeout = min(timeout, 5000)
        cvc5 = False
    last = None
    den = [q != 0 for q in denominators([goal] + list(hyps))]
    stages = [((), False), (tuple(hyps), False)]
    if use_axioms:
        stages.append((tuple(hyps), True))
    for stage, (H, ax) in enumerate(stages):
        s = z3.Solver()
        final = stage == len(stages) - 1
        A = list(H) + den + list(extra) + [PI > z3.RealVal('3.14159'), PI < z3.RealVal('3.1416')]
        if ax:
            A += axioms(list(H) + [goal], rounds=rounds)
        A.append(z3.Not(goal))
        s.add(*A)
        r = zcheck(s, timeout if final else min(timeout, 4000, 1500 if (_triage()) else 4000), want_model=final)
        last = (r, s, A, LAST_MODEL[0])
        QLOG.append(dict(stage=stage, result=str(r), ms=round(1000 * (time.time() - t0))))
        if r == z3.unsat:
            res = dict(result='discharged', stage=stage, ms=round(1000 * (time.time() - t0)), backend=Z3V)
            if THOROUGH:
                # thorough tier: the discharging query is put to cvc5 as well; a definite disagreement is a checker error
                r2 = _cvc5_check(A, 8000)
                RECHECK[r2] = RECHECK.get(r2, 0) + 1
                res['cvc5_recheck'] = r2
                if r2 == 'sat':
                    raise EngineError('solver disagreement: z3 unsat, cvc5 sat on a discharging query')
            if stage >= 1 and H:
                # vacuity guard: contradictory hypotheses discharge anything
                sv = z3.Solver()
                sv.add(*A[:-1])
                if zcheck(sv, 1500) == z3.unsat:
                    res['vacuous'] = True
            return res
    r, s, A, model = last
    if r == z3.unknown and cvc5:
        r2 = _cvc5_check(A, min(timeout, 30000))
        QLOG.append(dict(stage='cvc5', result=r2, ms=round(1000 * (time.time() - t0))))
        if r2 == 'unsat':
            return dict(result='discharged', stage='cvc5', ms=round(1000 * (time.time() - t0)), backend='cvc5 1.0.3 (after z3 unknown)')
    TRIAGE['spent_undischarged_s'] += time.time() - t0
    return dict(result=str(r), stage=len(stages) - 1, ms=round(1000 * (time.time() - t0)), backend=Z3V, model=model)


def prove_eq(code, spec, hyps=(), timeout=60000, abstract=True, tol=None):
    """code == spec (or |code-spec| <= tol) after congruence abstraction of both sides under hyps"""
    if not abstract:
        goal = (code == spec) if tol is None else z3.And(code - spec <= tol, spec - code <= tol)
        return prove(goal, hyps, timeout)
    A = Abstractor()
    H = A.assume(hyps)
    a, b = A.ab(code), A.ab(spec)
    goal = (a == b) if tol is None else z3.And(a - b <= tol, b - a <= tol)
    differ = tol is None and not A._fp_close(A.fp(a), A.fp(b))
    # fingerprints differ: the two sides are different functions of the atoms; only a hypothesis could still equate
    # them, so the solver gets a short budget (a refutation stays a refutation, this only bounds the time spent on it)
    res = prove(goal, H + A.side, min(timeout, 5000) if differ else timeout, use_axioms=False)
    res['atoms'] = sum(len(v) for v in A.atoms.values())
    res['arg_queries'] = A.queries
    ABS_MAX[0] = max(ABS_MAX[0], A.qtime)
    if differ:
        res['fingerprints_differ'] = True
    if res['result'] != 'discharged' and not differ and not (_triage()):
        # retry with raw (non-abstracted) axiom instances
        res2 = prove((code == spec) if tol is None else z3.And(code - spec <= tol, spec - code <= tol), hyps, min(timeout, 20000))
        if res2['result'] == 'discharged':
            res2['atoms'] = res['atoms']
            res2['arg_queries'] = A.queries
            return res2
        if res.get('model') is None:
            res['model'] = res2.get('model')
    return res


# --------------------------------------------------------------------------------------------- evaluation
def _generic_uf(name):
    """deterministic smooth stand-in for a summary UF during term comparison (respects congruence only)"""
    h = sum(ord(c) * (i + 1) for i, c in enumerate(name)) % 97 + 3

    def f(*a):
        return sum(mp.sin(mp.mpf(h + 7 * i) * x / 10 + i) for i, x in enumerate(a)) / (len(a) + 1)
    return f


MPFN = dict(sin=mp.sin, cos=mp.cos, tan=mp.tan, atan=mp.atan, atan2=mp.atan2, asin=mp.asin, acos=mp.acos, sqrt=mp.sqrt,
            sinh=mp.sinh, cosh=mp.cosh, log=mp.log, exp=mp.exp, atanh=mp.atanh, asinh=mp.asinh)


def evaluate(t, env, dps=50, exact_round=False, tol=None):
    """evaluate a z3 term with the TRUE functions (mpmath, dps digits); env: symbol name -> value / callable"""
    mp.mp.dps = dps
    memo = {}

    def ev(x):
        k = x.get_id()
        if k in memo:
            return memo[k]
        if z3.is_rational_value(x):
            r = mp.mpf(x.numerator_as_long()) / mp.mpf(x.denominator_as_long())
        elif z3.is_int_value(x):
            r = mp.mpf(x.as_long())
        elif z3.is_true(x):
            r = True
        elif z3.is_false(x):
            r = False
        elif z3.is_const(x) and x.decl().kind() == z3.Z3_OP_UNINTERPRETED:
            nm = x.decl().name()
            if nm == 'pi':
                r = +mp.pi
            elif nm in env:
                r = env[nm]
                if not isinstance(r, bool):
                    r = mp.mpf(r)
            elif nm.startswith('exhausted!'):
                r = False
            else:
                raise KeyError(nm)
        elif z3.is_app(x):
            d = x.decl()
            kd = d.kind()
            if kd == z3.Z3_OP_ITE:
                c = ev(x.arg(0))
                r = ev(x.arg(1)) if c else ev(x.arg(2))
                memo[k] = r
                return r
            a = [ev(c) for c in x.children()]
            if kd == z3.Z3_OP_ADD:
                r = sum(a[1:], a[0])
            elif kd == z3.Z3_OP_MUL:
                r = a[0]
                for y in a[1:]:
                    r = r * y
            elif kd == z3.Z3_OP_SUB:
                r = a[0] - sum(a[1:], mp.mpf(0)) if len(a) > 1 else -a[0]
            elif kd == z3.Z3_OP_UMINUS:
                r = -a[0]
            elif kd == z3.Z3_OP_DIV:
                r = a[0] / a[1]
            elif kd == z3.Z3_OP_POWER:
                r = a[0] ** a[1]
            elif kd == z3.Z3_OP_TO_REAL:
                r = a[0]
            elif kd == z3.Z3_OP_TO_INT:
                r = mp.floor(a[0])
            elif kd == z3.Z3_OP_IS_INT:
                r = a[0] == mp.floor(a[0])
            elif kd in (z3.Z3_OP_LE, z3.Z3_OP_LT, z3.Z3_OP_GE, z3.Z3_OP_GT):
                if tol is not None and not isinstance(a[0], bool) and not isinstance(a[1], bool):
                    # tolerant reading (numeric triage of a goal): a comparison that holds up to the evaluation noise counts as holding
                    sl = tol * (1 + abs(a[0]) + abs(a[1]))
                    r = {z3.Z3_OP_LE: a[0] <= a[1] + sl, z3.Z3_OP_LT: a[0] < a[1] + sl, z3.Z3_OP_GE: a[0] >= a[1] - sl, z3.Z3_OP_GT: a[0] > a[1] - sl}[kd]
                else:
                    r = {z3.Z3_OP_LE: a[0] <= a[1], z3.Z3_OP_LT: a[0] < a[1], z3.Z3_OP_GE: a[0] >= a[1], z3.Z3_OP_GT: a[0] > a[1]}[kd]
            elif kd == z3.Z3_OP_EQ:
                if tol is not None and not isinstance(a[0], bool) and not isinstance(a[1], bool):
                    r = abs(a[0] - a[1]) <= tol * (1 + abs(a[0]) + abs(a[1]))
                else:
                    r = a[0] == a[1]
            elif kd == z3.Z3_OP_DISTINCT:
                r = a[0] != a[1]
            elif kd == z3.Z3_OP_NOT:
                r = not a[0]
            elif kd == z3.Z3_OP_AND:
                r = all(a)
            elif kd == z3.Z3_OP_OR:
                r = any(a)
            elif kd == z3.Z3_OP_IMPLIES:
                r = (not a[0]) or a[1]
            elif kd == z3.Z3_OP_UNINTERPRETED:
                nm = d.name()
                if nm in MPFN:
                    # a sample far outside the working range of the function (sin of 1e400, exp of 1e9) is rejected: mpmath would otherwise
                    # spend minutes reducing the argument (observed: pi to ~1e9 bits inside mod_pi2)
                    if any(not isinstance(v_, bool) and abs(v_) > (mp.mpf(10) ** 12 if nm in ('sinh', 'cosh', 'exp') else mp.mpf(10) ** 25) for v_ in a):
                        raise OverflowError(nm)
                    r = MPFN[nm](*a)
                elif nm.startswith('round') and nm[5:].isdigit():
                    n = int(nm[5:])
                    if exact_round:
                        r = mp.floor(a[0] * 10 ** n + mp.mpf(1) / 2) / 10 ** n
                    else:
                        r = mp.mpf(round(float(a[0]), n))
                elif nm in env:
                    r = env[nm](*a)
                else:
                    r = _generic_uf(nm)(*a)
            else:
                raise NotImplementedError(d.name())
        else:
            raise NotImplementedError(str(x))
        memo[k] = r
        return r
    return ev(t)


def free_symbols(ts):
    out = {}
    for t in subterms(ts):
        if z3.is_const(t) and t.decl().kind() == z3.Z3_OP_UNINTERPRETED:
            out[t.decl().name()] = t
    return out


def model_env(model, names):
    """numeric values of the named real symbols in a solver model (dict name -> printed value); None if unusable"""
    if not model:
        return None
    env = {}
    for n in names:
        v = model.get(n)
        if v is None:
            env[n] = 0.0
            continue
        v = v.replace('?', '').strip()
        try:
            if v.startswith('(') or ' ' in v:
                return None
            if '/' in v:
                a, b = v.split('/')
                env[n] = float(int(a)) / float(int(b)) if len(a) < 300 and len(b) < 300 else float(__import__('fractions').Fraction(int(a), int(b)))
            else:
                env[n] = float(v)
        except (ValueError, OverflowError):
            return None
    return env


# --------------------------------------------------------------------------------------------- engine-vs-CPython cross-check
def crosscheck(paths, envs, native, flatten=lambda v: [x for x in v], uf_env=None, rel=1e-9, kinds=('ret',)):
    """DESIGN 2.10: every witness must select exactly one explored path (cover), and the path's result terms,
    evaluated with the true functions, must equal what the unmodified function returns natively (floats)."""
    covered = set()
    worst = 0.0
    pts = 0
    for env in envs:
        e = dict(env)
        if uf_env:
            e.update(uf_env)
        sel = []
        if ST.STATE:
            ST.restore()                     # single-call witnesses: import-time state, history paths are not selectable
        for i, p in enumerate(paths):
            if p.get('history'):
                continue
            try:
                if all(evaluate(c, e) for c in p['pc']):
                    sel.append(i)
            except (ZeroDivisionError, ValueError):
                pass
        if len(sel) != 1:
            raise EngineError('cross-check: witness %r selects %d paths' % (env, len(sel)))
        p = paths[sel[0]]
        covered.add(sel[0])
        if p['kind'] not in kinds:
            try:
                native(env)
            except PROGRAM_EXC as ex:
                if p['kind'] == 'raise' and type(ex).__name__ == p['val'][0]:
                    pts += 1
                    continue
                raise EngineError('cross-check: native raised %r on a %s path' % (ex, p['kind']))
            if p['kind'] == 'raise':
                raise EngineError('cross-check: engine path raises %r, native returns, at %r' % (p['val'], env))
            continue
        nat = flatten(native(env))
        symv = flatten(p['val'])
        if len(nat) != len(symv):
            raise EngineError('cross-check: result arity differs')
        for s_, n_ in zip(symv, nat):
            if isinstance(s_, Sym):
                v = float(evaluate(s_.t, e))
                d = abs(v - float(n_)) / max(1.0, abs(float(n_)))
                worst = max(worst, d)
                if d > rel:
                    raise EngineError('cross-check: engine %r vs CPython %r at %r' % (v, n_, env))
            else:
                if s_ != n_:
                    raise EngineError('cross-check: engine %r vs CPython %r at %r' % (s_, n_, env))
        pts += 1
    return pts, worst, len(covered)


def prove_abs(goal, hyps=(), timeout=60000, ax_rounds=1, extra_terms=()):
    """prove `goal` under `hyps` after congruence abstraction of everything, with the axiom instances of the ORIGINAL
    terms abstracted alongside (atoms instead of nested transcendental applications)."""
    A = Abstractor()
    H = A.assume(hyps)
    g = A.ab(goal)
    AX = [A.ab(x) for x in axioms([goal] + list(hyps) + list(extra_terms), rounds=ax_rounds)]
    res = prove(g, H + AX + A.side, timeout, use_axioms=False)
    res['atoms'] = sum(len(v) for v in A.atoms.values())
    res['arg_queries'] = A.queries
    ABS_MAX[0] = max(ABS_MAX[0], A.qtime)
    return res
