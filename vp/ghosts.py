"""Ghost objects that replace the outside world inside the checker process (DESIGN 2.2): dates, write barrier."""
import z3
from .sym import Sym, SymInt, lift, EngineError
from . import sym as S


class GhostDelta:
    def __init__(self, days):
        self.days = days


class GhostDate:
    """stands for datetime.date: a symbolic proleptic-Gregorian ordinal (integer).  `type(x) == date` holds for ghosts
    because the name `date` is rebound to this class in the module under analysis."""

    def __init__(self, ordinal, *rest):
        if rest:            # date(y, m, d) literal evaluated in the module: keep concrete
            import datetime
            self.ordinal = datetime.date(ordinal, *rest).toordinal()
        else:
            self.ordinal = ordinal

    def __sub__(self, other):
        if isinstance(other, GhostDate):
            a, b = self.ordinal, other.ordinal
            return GhostDelta(a - b)
        raise TypeError('unsupported operand type(s) for -: date and %s' % type(other).__name__)

    def __eq__(self, o):
        if not isinstance(o, GhostDate):
            return False
        if self.ordinal is o.ordinal:
            return True
        return bool(self.ordinal == o.ordinal)          # symbolic ordinals: a fork inside explore()

    def __hash__(self):
        return 0xda7e                                   # one bucket: dict lookups keyed by dates compare with ==

    def __repr__(self):
        return 'GhostDate(%r)' % (self.ordinal,)


class WriteBarrier:
    """records every attribute store to instances of the given classes that existed before the barrier was armed
    (C09 / C07 frame clauses: writes are observed while the REAL function runs, transient ones included)"""

    def __init__(self, classes):
        self.classes = classes
        self.writes = []
        self.frozen = set()
        self._old = {}
        self.armed = False

    def freeze(self, *objs):
        for o in objs:
            self.frozen.add(id(o))
        self._keep = getattr(self, '_keep', []) + list(objs)

    def _snapshot(self):
        # attribute dictionaries of the frozen objects: a write that goes around __setattr__ (vars(obj)[k] = v,
        # obj.__dict__.update(...)) is found by comparing them after the run
        return {id(o): dict(vars(o)) for o in getattr(self, '_keep', []) if hasattr(o, '__dict__')}

    def _compare(self):
        for o in getattr(self, '_keep', []):
            before = self._snap.get(id(o))
            if before is None:
                continue
            now = vars(o)
            for k in set(before) | set(now):
                if k not in now or k not in before or now[k] is not before[k]:
                    if not any(w[0] == type(o).__name__ and w[1] == k for w in self.writes):
                        self.writes.append((type(o).__name__, k, before.get(k), now.get(k)))
                    if k in before:
                        now[k] = before[k]          # put the pre-state back: later paths and later obligations start clean
                    else:
                        now.pop(k, None)

    def __enter__(self):
        wb = self
        for cls in self.classes:
            self._old[cls] = cls.__dict__.get('__setattr__')

            def mk(cls):
                def __setattr__(obj, name, value):
                    if wb.armed and id(obj) in wb.frozen:
                        wb.writes.append((type(obj).__name__, name, getattr(obj, name, None), value))
                    object.__setattr__(obj, name, value)
                return __setattr__
            cls.__setattr__ = mk(cls)
        self._snap = self._snapshot()
        self.armed = True
        return self

    def __exit__(self, *a):
        self.armed = False
        self._compare()
        for cls, old in self._old.items():
            if old is None:
                try:
                    del cls.__setattr__
                except AttributeError:
                    pass
            else:
                cls.__setattr__ = old
        return False


# ------------------------------------------------------------------------------------------------ ghost binary file (NTv2)
F32 = z3.Function('FILE_F32', S.R, S.R)
F64 = z3.Function('FILE_F64', S.R, S.R)
I32 = z3.Function('FILE_I32', S.R, S.R)


class GhostBytes:
    def __init__(self, off, n, gf):
        self.off, self.n, self.gf = off, n, gf

    def decode(self, *a):
        return GhostStr(self.off, self.n)


class GhostStr:
    def __init__(self, off, n):
        self.off, self.n = off, n

    def strip(self, *a):
        return self

    def __eq__(self, o):
        return isinstance(o, GhostStr) and o.n == self.n and z3.is_true(z3.simplify(lift(o.off) == lift(self.off)))

    def __hash__(self):
        return hash(('ghoststr', str(z3.simplify(lift(self.off))), self.n))

    def __repr__(self):
        return 'FILE_STR(%s,%d)' % (z3.simplify(lift(self.off)), self.n)


class GhostFile:
    """binary file with a symbolic cursor: seek/read advance it, every read is logged with its offset and length; the
    content is the uninterpreted FILE_F32 / FILE_F64 / FILE_I32 (offset)"""

    def __init__(self, concrete_ints=None):
        self.pos = z3.RealVal(0)
        self.reads = []
        self.concrete_ints = concrete_ints or {}

    def __enter__(self):
        return self

    def __exit__(self, *a):
        return False

    def seek(self, off, whence=0):
        o = lift(off)
        self.pos = z3.simplify(self.pos + o) if whence == 1 else z3.simplify(o)

    def read(self, n):
        b = GhostBytes(self.pos, n, self)
        self.reads.append((self.pos, n))
        self.pos = z3.simplify(self.pos + n)
        return b


class GhostStruct:
    @staticmethod
    def unpack(fmt, b):
        if not isinstance(b, GhostBytes):
            import struct
            return struct.unpack(fmt, b)
        if fmt == 'f' and b.n == 4:
            return (Sym(F32(lift(b.off))),)
        if fmt == 'd' and b.n == 8:
            return (Sym(F64(lift(b.off))),)
        raise EngineError('ghost struct.unpack(%r) of %d bytes' % (fmt, b.n))


def ghost_int_from_bytes(b, byteorder='big'):
    if isinstance(b, GhostBytes):
        if b.n != 4 or byteorder != 'little':
            raise EngineError('ghost int.from_bytes of %d bytes (%s)' % (b.n, byteorder))
        k = z3.simplify(lift(b.off))
        if z3.is_rational_value(k) and int(k.as_fraction()) in b.gf.concrete_ints:
            return b.gf.concrete_ints[int(k.as_fraction())]
        return SymInt(I32(lift(b.off)))
    return int.from_bytes(b, byteorder)


class GhostDT:
    """stands for datetime.datetime in ntv2reader: strptime(...).strftime(...) of a ghost string is a date token"""
    class _D:
        def __init__(self, s):
            self.s = s

        def strftime(self, fmt):
            return ('DATE', self.s)

    @staticmethod
    def strptime(s, fmt):
        return GhostDT._D(s)
