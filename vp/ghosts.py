"""Ghost objects that replace the outside world inside the checker process (DESIGN 2.2): dates, write barrier."""
import z3
from .sym import Sym, SymInt, lift, EngineError
from . import sym as S


class GhostDelta:
    def __init__(self, days):
        self.days = days


class GhostDate:
    """stands for datetime.date: a symbolic proleptic-Gregorian ordinal (integer).  `type(x) == date` holds for ghosts
    because the name `date` is rebound to this class in the module under analysis."""

    def __init__(self, ordinal, *rest):
        if rest:            # date(y, m, d) literal evaluated in the module: keep concrete
            import datetime
            self.ordinal = datetime.date(ordinal, *rest).toordinal()
        else:
            self.ordinal = ordinal

    def __sub__(self, other):
        if isinstance(other, GhostDate):
            a, b = self.ordinal, other.ordinal
            return GhostDelta(a - b)
        raise TypeError('unsupported operand type(s) for -: date and %s' % type(other).__name__)

    def __eq__(self, o):
        return isinstance(o, GhostDate) and (self.ordinal is o.ordinal or (not isinstance(self.ordinal, Sym) and not isinstance(o.ordinal, Sym) and self.ordinal == o.ordinal))

    __hash__ = None

    def __repr__(self):
        return 'GhostDate(%r)' % (self.ordinal,)


class WriteBarrier:
    """records every attribute store to instances of the given classes that existed before the barrier was armed
    (C09 / C07 frame clauses: writes are observed while the REAL function runs, transient ones included)"""

    def __init__(self, classes):
        self.classes = classes
        self.writes = []
        self.frozen = set()
        self._old = {}
        self.armed = False

    def freeze(self, *objs):
        for o in objs:
            self.frozen.add(id(o))
        self._keep = getattr(self, '_keep', []) + list(objs)

    def __enter__(self):
        wb = self
        for cls in self.classes:
            self._old[cls] = cls.__dict__.get('__setattr__')

            def mk(cls):
                def __setattr__(obj, name, value):
                    if wb.armed and id(obj) in wb.frozen:
                        wb.writes.append((type(obj).__name__, name, getattr(obj, name, None), value))
                    object.__setattr__(obj, name, value)
                return __setattr__
            cls.__setattr__ = mk(cls)
        self.armed = True
        return self

    def __exit__(self, *a):
        self.armed = False
        for cls, old in self._old.items():
            if old is None:
                try:
                    del cls.__setattr__
                except AttributeError:
                    pass
            else:
                cls.__setattr__ = old
        return False
