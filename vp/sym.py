"""Symbolic value library: the REAL GeodePy functions are called with these values.

Sym wraps a z3 Real term and overloads the arithmetic operators; SymB wraps a z3 Bool term and forks
the exploration when Python asks for its truth value.  math.* is replaced by dispatchers BEFORE geodepy is
imported (symbolic argument -> uninterpreted-function term, float argument -> the original C function).
Semantics assumed (DESIGN.md A1-A3): floats are reals; decimal literals are the rationals they spell;
round(x, n) is an uninterpreted function with |round_n(x) - x| <= 0.5*10^-n; int() truncates toward zero.
"""
import math, builtins, numbers
from decimal import Decimal
from fractions import Fraction
import z3

R = z3.RealSort()
_NAMES = ('sin', 'cos', 'tan', 'atan', 'atan2', 'asin', 'acos', 'sqrt', 'sinh', 'cosh', 'log', 'exp', 'atanh', 'asinh')
REAL_MATH = {k: getattr(math, k) for k in _NAMES + ('radians', 'degrees', 'floor', 'fabs', 'pow')}
UF = {k: z3.Function(k, *([R, R, R] if k == 'atan2' else [R, R])) for k in _NAMES}
PI = z3.Real('pi')
ROUND = {}


import time


class EngineError(BaseException):
    """unsupported construct met while running real code on symbols: never a property verdict"""


def round_uf(n):
    return ROUND.setdefault(n, z3.Function('round%d' % n, R, R))


def frac_val(fr):
    return z3.RealVal(str(fr.numerator)) / z3.RealVal(str(fr.denominator)) if fr.denominator != 1 else z3.RealVal(str(fr.numerator))


def _simplest_between(lo, hi):
    """the fraction with the smallest denominator in the closed interval [lo, hi] (0 < lo <= hi), Stern-Brocot / continued fractions"""
    fl = lo.numerator // lo.denominator
    if Fraction(fl) == lo or fl + 1 <= hi:
        return Fraction(fl) if Fraction(fl) >= lo else Fraction(fl + 1)
    r = _simplest_between(1 / (hi - fl), 1 / (lo - fl))
    return fl + 1 / r


def lift_float(v):
    """A1: a concrete float met by a symbol is read as the real number it stands for: a float whose shortest repr has at
    most 13 significant digits is that decimal (literals); otherwise (a float COMPUTED from constants before it met a
    symbol, carrying rounding noise) it is the simplest rational within two units in the last place (0.1 + 0.2 is 3/10,
    7.0 * 0.004028 is 7049/250000, 10/9 is 10/9), or, if no simple one exists (denominator > 10^7), its repr decimal."""
    if v != v or v in (float('inf'), float('-inf')):
        raise EngineError('non-finite float meets a symbol')
    if v == 0:
        return z3.RealVal(0)
    import math
    a = abs(v)
    d = Decimal(repr(float(a)))
    if len(d.as_tuple().digits) <= 13:
        f = Fraction(d)                      # a short decimal: the literal (or exactly representable value) it spells
    else:
        ulp = math.ulp(a)
        fa = Fraction(a)
        f = _simplest_between(fa - 2 * Fraction(ulp), fa + 2 * Fraction(ulp)) if fa > 2 * Fraction(ulp) else fa
        if f.denominator > 10 ** 7:
            f = Fraction(d)
    if v < 0:
        f = -f
    return z3.Q(f.numerator, f.denominator)


def lift(v):
    if isinstance(v, Sym):
        return v.t
    if isinstance(v, z3.ExprRef):
        return v
    if isinstance(v, (bool, SymB)):
        raise TypeError('bool')
    if isinstance(v, numbers.Integral):
        return z3.RealVal(int(v))
    if isinstance(v, Fraction):
        return z3.Q(v.numerator, v.denominator)
    if isinstance(v, numbers.Real):
        return lift_float(float(v))
    raise TypeError(type(v))


class Ctx:
    pc = []
    prefix = []
    idx = 0
    work = []
    active = False
    deadline = 0
    budget_s = 0


ctx = Ctx()


def _pw(t, e):
    r = z3.RealVal(1)
    for _ in range(e):
        r = r * t
    return r


class Sym:
    __slots__ = ('t',)

    def __init__(s, t):
        s.t = t

    def _b(s, o, f):
        try:
            return Sym(f(s.t, lift(o)))
        except TypeError:
            return NotImplemented

    def _r(s, o, f):
        try:
            return Sym(f(lift(o), s.t))
        except TypeError:
            return NotImplemented

    __add__ = lambda s, o: s._b(o, lambda a, b: a + b)
    __radd__ = lambda s, o: s._r(o, lambda a, b: a + b)
    __sub__ = lambda s, o: s._b(o, lambda a, b: a - b)
    __rsub__ = lambda s, o: s._r(o, lambda a, b: a - b)
    __mul__ = lambda s, o: s._b(o, lambda a, b: a * b)
    __rmul__ = lambda s, o: s._r(o, lambda a, b: a * b)
    __truediv__ = lambda s, o: s._b(o, lambda a, b: a / b)
    __rtruediv__ = lambda s, o: s._r(o, lambda a, b: a / b)

    def __neg__(s):
        return Sym(-s.t)

    def __pos__(s):
        return s

    def __abs__(s):
        return Sym(z3.If(s.t >= 0, s.t, -s.t))

    def __pow__(s, e):
        if isinstance(e, numbers.Integral) and not isinstance(e, bool):
            e = int(e)
            return Sym(_pw(s.t, e)) if e >= 0 else Sym(1 / _pw(s.t, -e))
        if isinstance(e, float):
            if e == int(e):
                return s ** int(e)
            if e == 0.5:
                return sym_fn('sqrt')(s)
            if e == 1.5:
                return s * sym_fn('sqrt')(s)
            if e == -0.5:
                return 1 / sym_fn('sqrt')(s)
        raise EngineError('unsupported power %r' % (e,))

    def __rpow__(s, b):
        raise EngineError('symbolic exponent')

    def __round__(s, n=0):
        return Sym(round_uf(0 if n is None else int(n))(s.t))

    def __divmod__(s, o):
        o = lift(o)
        q = z3.ToReal(z3.ToInt(s.t / o))          # floor for positive divisor (all uses: 1, 60, 360 ...)
        return Sym(q), Sym(s.t - o * q)

    def __rdivmod__(s, o):
        return divmod(Sym(lift(o)), s)

    def __mod__(s, o):
        return divmod(s, o)[1]

    def __floordiv__(s, o):
        return divmod(s, o)[0]

    def __bool__(s):
        return bool(SymB(s.t != 0))

    def __float__(s):
        raise EngineError('builtin float() of a symbol (numpy float array store, or an unshimmed namespace)')

    def __int__(s):
        raise EngineError('int() of a symbol outside a shimmed module namespace')

    def __index__(s):
        raise EngineError('symbol used as an index')

    __lt__ = lambda s, o: SymB(s.t < lift(o))
    __le__ = lambda s, o: SymB(s.t <= lift(o))
    __gt__ = lambda s, o: SymB(s.t > lift(o))
    __ge__ = lambda s, o: SymB(s.t >= lift(o))

    def __eq__(s, o):
        try:
            return SymB(s.t == lift(o))
        except TypeError:
            return False

    def __ne__(s, o):
        try:
            return SymB(s.t != lift(o))
        except TypeError:
            return True

    def __hash__(s):
        return 0x5eed          # one bucket: dict / set lookups with symbolic keys compare with ==, which forks (vp/state.py)

    def __repr__(s):
        if ctx.active and not getattr(ctx, 'in_engine', False):
            # the code under analysis takes the repr of a number (a memo keyed on repr(value), a message): text derived from a symbol is
            # outside the value library - better an honest engine error than a key that silently identifies different values
            raise EngineError('repr() of a symbolic number inside the code under analysis')
        return 'Sym(%s)' % (str(s.t)[:60],)

    def __str__(s):
        return SymStrSign(s)

    def __format__(s, spec):
        raise EngineError('format of a symbol (spec %r)' % spec)


class SymStrSign(str):
    """str(sym): only the sign idiom `str(x)[0] == '-'` is supported (x < 0; -0.0 does not exist in R)."""

    def __new__(cls, sym):
        o = super().__new__(cls, '<sym>')
        o.sym = sym
        return o

    def __getitem__(s, i):
        if i == 0:
            return _SignChar(s.sym)
        raise EngineError('str(symbol)[%r]' % (i,))

    def __add__(s, o):
        raise EngineError('string concatenation with a symbol')

    __radd__ = __add__


class _SignChar:
    def __init__(s, sym):
        s.sym = sym

    def __eq__(s, o):
        if o == '-':
            return SymB(s.sym.t < 0)
        raise EngineError('sign char compared with %r' % (o,))

    def __ne__(s, o):
        if o == '-':
            return SymB(s.sym.t >= 0)
        raise EngineError('sign char compared with %r' % (o,))

    __hash__ = None


class SymB:
    __slots__ = ('t',)

    def __init__(s, t):
        s.t = t

    def __bool__(s):
        t = z3.simplify(s.t)
        if z3.is_true(t):
            return True
        if z3.is_false(t):
            return False
        c = ctx
        if not c.active:
            raise EngineError('symbolic branch outside explore()')
        if c.deadline and time.time() > c.deadline:
            # e.g. a loop that the cut does not reach (moved into a helper) is being unrolled on symbols: outside the engine's reach, never a verdict
            raise EngineError('exploration time budget used up (%d s)' % c.budget_s)
        i = c.idx
        c.idx += 1
        if i < len(c.prefix):
            v = c.prefix[i]
        else:
            c.work.append(c.prefix + [False])
            v = True
            c.prefix.append(v)
        c.pc.append(s.t if v else z3.Not(s.t))
        return v

    def __and__(s, o):
        return SymB(z3.And(s.t, o.t if isinstance(o, SymB) else z3.BoolVal(bool(o))))

    def __or__(s, o):
        return SymB(z3.Or(s.t, o.t if isinstance(o, SymB) else z3.BoolVal(bool(o))))

    __rand__ = __and__
    __ror__ = __or__

    def __invert__(s):
        return SymB(z3.Not(s.t))

    def __eq__(s, o):
        return bool(s) == o

    __hash__ = None


def sym_fn(name):
    real = REAL_MATH[name]

    def f(*a):
        if any(isinstance(x, Sym) for x in a):
            return Sym(UF[name](*[lift(x) for x in a]))
        return real(*a)
    f.__name__ = name
    return f


def _radians(x):
    return x * Sym(PI) / 180 if isinstance(x, Sym) else REAL_MATH['radians'](x)


def _degrees(x):
    return x * 180 / Sym(PI) if isinstance(x, Sym) else REAL_MATH['degrees'](x)


def _fabs(x):
    return abs(x) if isinstance(x, Sym) else REAL_MATH['fabs'](x)


def _floor(x):
    return Sym(z3.ToReal(z3.ToInt(x.t))) if isinstance(x, Sym) else REAL_MATH['floor'](x)


def _pow(x, y):
    return x ** y if isinstance(x, Sym) else REAL_MATH['pow'](x, y)


def _anysym(*a):
    return any(isinstance(x, Sym) for x in a)


def _fmod(x, y):
    # C fmod: x - y*trunc(x/y), the result has the sign of x
    if _anysym(x, y):
        xt, yt = lift(x), lift(y)
        return Sym(xt - yt * trunc(xt / yt))
    return REAL_MATH['fmod'](x, y)


def _ceil(x):
    return Sym(-z3.ToReal(z3.ToInt(-x.t))) if isinstance(x, Sym) else REAL_MATH['ceil'](x)


def _mtrunc(x):
    return Sym(trunc(x.t)) if isinstance(x, Sym) else REAL_MATH['trunc'](x)


def _copysign(x, y):
    if _anysym(x, y):
        xt, yt = lift(x), lift(y)
        ax = z3.If(xt >= 0, xt, -xt)
        return Sym(z3.If(yt >= 0, ax, -ax))          # -0.0 does not exist in R
    return REAL_MATH['copysign'](x, y)


def _hypot(*a):
    if _anysym(*a):
        t = None
        for x in a:
            xt = lift(x)
            t = xt * xt if t is None else t + xt * xt
        return Sym(UF['sqrt'](t))
    return REAL_MATH['hypot'](*a)


def _remainder_unsupported(name):
    def f(*a):
        if _anysym(*a):
            raise EngineError('math.%s of a symbol is outside the value library' % name)
        return REAL_MATH[name](*a)
    return f


_installed = False


def install_math():
    """must run before geodepy is imported: `from math import sin` then binds the dispatcher"""
    global _installed
    if _installed:
        return
    for k in _NAMES:
        setattr(math, k, sym_fn(k))
    math.radians = _radians
    math.degrees = _degrees
    math.fabs = _fabs
    math.floor = _floor
    math.pow = _pow
    for k_ in ('fmod', 'ceil', 'trunc', 'copysign', 'hypot', 'remainder', 'modf', 'frexp', 'isclose', 'expm1', 'log1p', 'log10', 'log2', 'acosh'):
        REAL_MATH.setdefault(k_, getattr(math, k_))
    math.fmod = _fmod
    math.ceil = _ceil
    math.trunc = _mtrunc
    math.copysign = _copysign
    math.hypot = _hypot
    for k_ in ('remainder', 'modf', 'frexp', 'isclose', 'expm1', 'log1p', 'log10', 'log2', 'acosh'):
        setattr(math, k_, _remainder_unsupported(k_))          # a clear engine error instead of float(symbol) deep inside C code
    _installed = True


class _FloatMeta(type):
    def __call__(cls, x=0.0):
        if isinstance(x, Sym):
            return x
        return builtins.float(x)

    def __instancecheck__(cls, o):
        return isinstance(o, (builtins.float, Sym))

    def __eq__(cls, o):
        return o is cls or o is builtins.float or o is Sym

    def __ne__(cls, o):
        return not cls.__eq__(o)

    def __hash__(cls):
        return hash(builtins.float)


class SFloat(metaclass=_FloatMeta):
    """stands for `float` in a repo module namespace"""


def trunc(t):
    fl = z3.ToReal(z3.ToInt(t))
    cl = -z3.ToReal(z3.ToInt(-t))
    return z3.If(t >= 0, fl, cl)


class _IntMeta(type):
    def __call__(cls, x=0, *a):
        if isinstance(x, Sym):
            if type(x).__name__ == 'SymInt':          # integer-valued by its precondition: int() is the identity
                return x
            return Sym(trunc(x.t))
        return builtins.int(x, *a)

    def __instancecheck__(cls, o):
        return isinstance(o, (builtins.int, SymInt))

    def __eq__(cls, o):
        return o is cls or o is builtins.int

    def __ne__(cls, o):
        return not cls.__eq__(o)

    def __hash__(cls):
        return hash(builtins.int)


class SInt(metaclass=_IntMeta):
    """stands for `int` in a repo module namespace"""

    @staticmethod
    def from_bytes(b, byteorder='big', **kw):
        from .ghosts import ghost_int_from_bytes
        return ghost_int_from_bytes(b, byteorder)


def real(name):
    return Sym(z3.Real(name))


class SymInt(Sym):
    """a symbol known to be an integer (precondition carries is_int); isinstance(x, int) holds in shimmed namespaces"""
    __slots__ = ()


def integer(name):
    return SymInt(z3.Real(name))


def is_int(t):
    return t == z3.ToReal(z3.ToInt(t))


class SymList(list):
    """a module-level table indexed by a symbol: element = uninterpreted ELEM_<name>(index); every symbolic access is
    recorded with its path condition so that `0 <= index < len` becomes an obligation"""

    def __init__(s, data, name):
        list.__init__(s, data)
        s.name = name
        s.accesses = []
        s.fn = z3.Function('ELEM_' + name, R, R)

    def __getitem__(s, i):
        if isinstance(i, Sym):
            s.accesses.append((i.t, list(ctx.pc)))
            return Sym(s.fn(i.t))
        return list.__getitem__(s, i)


_SS = {}


def _scalar_slots(np):
    """object ndarray that, like a real float array under numpy >= 2.4, refuses to store a sequence in one element"""
    if 'cls' not in _SS:
        class ScalarSlots(np.ndarray):
            def __setitem__(self, key, value):
                single = isinstance(key, tuple) and len(key) == self.ndim and all(isinstance(k, (int, np.integer)) for k in key)
                if single and (isinstance(value, (list, tuple)) or (isinstance(value, np.ndarray) and value.ndim > 0)):
                    raise ValueError('setting an array element with a sequence.')
                np.ndarray.__setitem__(self, key, value)
        _SS['cls'] = ScalarSlots
    return _SS['cls']


class NPProxy:
    """stands for `np` in a repo module namespace: real numpy, except that freshly allocated zero arrays are object
    arrays so that symbolic scalars can be stored (A5; cross-checked against real numpy on every run)"""

    def __init__(s, np):
        s.__dict__['_np'] = np

    def __getattr__(s, k):
        return getattr(s._np, k)

    def zeros(s, shape, dtype=None, **kw):
        a = s._np.empty(shape, dtype=object)
        a.fill(0.0)
        return a.view(_scalar_slots(s._np))

    _uninit = [0]

    def empty(s, shape, dtype=None, **kw):
        # uninitialised memory is an ARBITRARY value: every element is a fresh symbol, so a result that depends on an element
        # the code never assigns keeps that symbol and fails its contract
        a = s._np.empty(shape, dtype=object)
        for idx in s._np.ndindex(a.shape):
            NPProxy._uninit[0] += 1
            a[idx] = Sym(z3.Real('UNINIT_%d' % NPProxy._uninit[0]))
        return a.view(_scalar_slots(s._np))

    def empty_like(s, proto, dtype=None, **kw):
        return s.empty(s._np.shape(proto))

    def ones(s, shape, dtype=None, **kw):
        a = s._np.empty(shape, dtype=object)
        a.fill(1.0)
        return a.view(_scalar_slots(s._np))

    def zeros_like(s, proto, dtype=None, **kw):
        return s.zeros(s._np.shape(proto))

    def eye(s, n, *a_, **kw):
        a = s.zeros((n, n))
        for i in range(n):
            a[i, i] = 1.0
        return a

    def identity(s, n, *a_, **kw):
        return s.eye(n)

    def array(s, obj, *a, **kw):
        return s._np.array(obj, *a, **kw)
