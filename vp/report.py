"""Obligation registry, verdict logic (DESIGN 2.7), known findings (2.11), replay files, evidence (2.12)."""
import json, os, sys, time, random, traceback
import z3
import mpmath as mp
from . import engine as E
from . import state as ST
from .sym import EngineError

VERIF = os.path.dirname(os.path.dirname(os.path.abspath(__file__)))
GLOBAL_ASSUMPTIONS = [
    'A1: Python float arithmetic treated as exact real arithmetic; literals read as the rationals they spell (Layer P says nothing about rounding; float tolerances are decided by the bounded layer only)',
    'A2: math.sin/cos/tan/atan/atan2/asin/sqrt/sinh/cosh/log/exp are uninterpreted functions constrained by the enumerated true axioms of DESIGN 2.6; pi is a constant in (3.14159, 3.1416)',
    'A3: round(x,n) is an uninterpreted function with |round_n(x)-x| <= 0.5*10^-n; int() truncates toward zero; Python int unbounded',
    'A4: attribute lookup, dispatch, exceptions, containers, closures, default arguments are executed by CPython itself (real functions run on symbolic values)',
    'definedness: denominators occurring in an obligation are assumed non-zero unless the clause is a no-exception clause',
    'VC generator (vp/engine.py, vp/sym.py) and z3/cvc5 are trusted; the generator is cross-checked against CPython on every run (engine_crosscheck)',
]


def load_known():
    p = os.path.join(VERIF, 'known_findings.json')
    if not os.path.exists(p):
        return []
    return json.load(open(p)).get('findings', [])


def _sig_ok(sig, inp):
    if not sig:
        return True
    try:
        return bool(eval(sig, {'__builtins__': {}, 'abs': abs, 'min': min, 'max': max, 'len': len, 'str': str,
                               'float': float, 'int': int, 'isinstance': isinstance, 'any': any, 'all': all}, dict(inp or {})))
    except Exception:
        return False


def jsonable(x):
    if isinstance(x, dict):
        return {str(k): jsonable(v) for k, v in x.items()}
    if isinstance(x, (list, tuple, set)):
        return [jsonable(v) for v in x]
    if isinstance(x, (str, int, bool)) or x is None:
        return x
    if isinstance(x, float):
        return x if x == x and abs(x) != float('inf') else repr(x)
    try:
        import numpy as np
        if isinstance(x, np.ndarray):
            return jsonable(x.tolist())
        if isinstance(x, np.generic):
            return jsonable(x.item())
    except Exception:
        pass
    if isinstance(x, mp.mpf):
        return float(x)
    return str(x)[:400]


class Prop:
    CURRENT = None
    def __init__(self, pid, title=''):
        self.pid = pid
        self.title = title
        self.tier = os.environ.get('VERIF_TIER', 'quick')
        if self.tier not in ('quick', 'thorough'):
            self.tier = 'quick'
        try:
            self.seed = int(os.environ.get('VERIF_SEED', '0'))
        except ValueError:
            self.seed = 0
        self.rng = random.Random(self.seed)
        self.t0 = time.time()
        self.obl = []
        self.lines = []          # VIOLATION / KNOWN-FINDING / UNPROVED-IDENTITY lines
        self.viol = 0
        self.uf_env = {}         # summary UF name -> callable: how the numeric triage interprets call summaries (the real helper, itself under contract elsewhere)
        self.known = load_known()
        self.known_hit = []
        self.bounded = []
        self.functions = set()
        self.loops = []
        self.summaries = []
        self.assumptions = list(GLOBAL_ASSUMPTIONS)
        self.trusted = [E.Z3V, 'cvc5 1.0.3 CLI (second opinion on z3 unknown)', 'vp VC generator (AST loop cut + operator-overloading symbolic execution)',
                        'axiom list DESIGN 2.6 (instances only)']
        self.xcheck = dict(points=0, worst_rel=0.0, paths_covered=0, paths_total=0)
        self.notes = []
        # VERIF_OUT (tools only: seeded/rerun.py, selftest/run.py) redirects replays and evidence of a run against a scratch copy,
        # so that such runs neither clobber each other nor the evidence of the run against /repo itself
        Prop.CURRENT = self
        self.out = os.environ.get('VERIF_OUT') or VERIF
        rd = os.path.join(self.out, 'replays', pid)
        os.makedirs(rd, exist_ok=True)
        for f in os.listdir(rd):            # replay files belong to the run that wrote them
            if f.endswith('.json'):
                os.unlink(os.path.join(rd, f))
        os.makedirs(os.path.join(self.out, 'evidence'), exist_ok=True)
        self.verbose = os.environ.get('VERIF_VERBOSE', '1') != '0'

    # ------------------------------------------------------------------ helpers
    def log(self, *a):
        if self.verbose:
            print(*a, flush=True)

    def replay_path(self, name):
        safe = ''.join(c if c.isalnum() or c in '._-' else '_' for c in name)[:150]
        rel = os.path.join('replays', self.pid, safe + '.json')
        return rel if self.out == VERIF else os.path.join(self.out, rel)

    def _known_match(self, layer, name, inp, path=None):
        for kf in self.known:
            if kf.get('property') != self.pid or kf.get('layer', layer) != layer:
                continue
            if kf.get('path') is not None and path is not None and kf['path'] != path:
                continue
            ob = kf.get('obligation', '')
            if not (name == ob or (ob.endswith('*') and name.startswith(ob[:-1]))):
                continue
            if _sig_ok(kf.get('signature'), inp):
                return kf
        return None

    def _emit_known(self, kf):
        key = (kf.get('obligation'), kf.get('what'))
        if key not in self.known_hit:
            self.known_hit.append(key)
            line = 'KNOWN-FINDING: property=%s %s' % (self.pid, kf.get('what', kf.get('obligation')))
            self.lines.append(line)
            print(line, flush=True)

    def violation(self, name, payload, no_input=False):
        E.TRIAGE['violations'] += 1
        rp = self.replay_path(name)
        payload = dict(payload)
        payload.setdefault('property', self.pid)
        payload.setdefault('obligation', name)
        with open(os.path.join(VERIF, rp), 'w') as f:        # (an absolute rp wins in os.path.join)
            json.dump(jsonable(payload), f, indent=1)
        line = 'VIOLATION property=%s replay=%s' % (self.pid, rp) + (' no-failing-input-found' if no_input else '')
        self.lines.append(line)
        self.viol += 1
        print(line, flush=True)

    # ------------------------------------------------------------------ Layer P
    def oblige(self, name, function, path, res, *, refute=None, pool=(), code=None, spec=None, hyps=(), strict=False,
               symbols=None, tol_cmp=None, note=None, soft=False, goal=None):
        """register the outcome `res` of a prove()/prove_eq() call for a named obligation and decide its verdict.
        refute(env) -> None | dict : runs the REAL function natively on a concrete candidate and judges the clause.
        code/spec: the two sides (z3 terms) for the term-comparison fallback; strict=True: no such fallback."""
        self.functions.add(function)
        rec = dict(name=name, function=function, path=path, result=res['result'], backend=res.get('backend'),
                   ms=res.get('ms'), stage=res.get('stage'))
        tgt = os.environ.get('VERIF_REPLAY_OBLIGATION')
        if tgt and (name + '.' + path) != tgt and self.replay_path(name + '.' + path) != self.replay_path(tgt):
            # ./check --replay of a Layer-P record: only the recorded obligation is re-derived and triaged on the current tree
            self.obl.append(rec)
            return res['result'] == 'discharged'
        if tgt:
            self.replay_seen = True
        for k in ('atoms', 'arg_queries', 'vacuous', 'cvc5_recheck'):
            if k in res:
                rec[k] = res[k]
        if note:
            rec['note'] = note
        self.obl.append(rec)
        self.log('  [%10s] %s [%s] %sms' % (res['result'], name, path, res.get('ms')))
        if res['result'] == 'discharged':
            if os.environ.get('VERIF_REFUTER_SELFTEST') == '1' and refute is not None:
                # development guard: a refuter must find nothing on a tree where its obligation is discharged
                for w in list(pool)[:8]:
                    try:
                        r = refute(w)
                    except EngineError:
                        raise
                    except Exception:
                        r = None
                    if r:
                        print('REFUTER-SELFTEST-FAILED %s [%s]: %r' % (name, path, r), flush=True)
                        break
            return True
        # ---- not discharged: refutation search on the real code
        self.undischarged = getattr(self, 'undischarged', 0) + 1
        if self.viol >= 6 and self.undischarged > 8:
            # the property is already reported violated several times over: further undischarged obligations are
            # recorded (evidence: result != discharged) without spending the full triage on each of them
            rec['triage'] = 'skipped (property already reported violated)'
            return False
        cands = []
        m = res.get('model')
        if m is not None and symbols:
            names = list(symbols) + [k for k in m if k.endswith(ST.HIST) and k[:-len(ST.HIST)] in symbols]
            env = E.model_env(m, names)
            if env is not None:
                cands.append(env)
        cands += list(pool)
        found = None

        def run(w):
            try:
                return refute(w)
            except EngineError:
                raise
            except Exception:                # the real function raising on a domain input is itself information
                return None
        if refute is not None:
            for w in cands:
                hist = {k[:-len(ST.HIST)]: v for k, v in w.items() if isinstance(k, str) and k.endswith(ST.HIST)}
                cur = {k: v for k, v in w.items() if not (isinstance(k, str) and k.endswith(ST.HIST))}
                if ST.STATE:
                    ST.restore()
                if hist:
                    run(dict(cur, **hist))   # the earlier call of the two-call history the model describes
                r = run(cur)
                if r:
                    found = dict(r)
                    found.setdefault('input', cur)
                    if hist:
                        found['history_input'] = dict(cur, **hist)
                    break
            if not found and ST.STATE:
                # written module state and no model: two-call histories over the witness pool, on the real code
                pl = [w for w in cands if not any(isinstance(k, str) and k.endswith(ST.HIST) for k in w)][:6]
                for w1 in pl:
                    for w2 in pl:
                        if w1 is w2 or found:
                            continue
                        ST.restore()
                        run(w1)
                        r = run(w2)
                        if r:
                            found = dict(r)
                            found.setdefault('input', w2)
                            found['history_input'] = w1
            if ST.STATE:
                ST.restore()
        base = dict(function=function, path=path, solver_result=res['result'], backend=res.get('backend'),
                    solver_model=str(m)[:2000] if m is not None else None, layer='P')
        if found:
            kf = self._known_match('P', name, found.get('input'), path)
            rec['refuted_by'] = jsonable(found)
            if kf:
                rec['known_finding'] = True
                self._emit_known(kf)
                return False
            self.violation(name + '.' + path, dict(base, failing_input=found))
            return False
        kf = self._known_match('P', name, None, path)
        if kf and not kf.get('signature'):
            rec['known_finding'] = True
            self._emit_known(kf)
            return False
        if soft:
            # the construct is outside what the engine models (res['result'] says why): undecided, never a violation by itself
            line = 'UNDECIDED property=%s obligation=%s path=%s (%s; refutation search on the real code found nothing)' % (self.pid, name, path, res['result'])
            self.lines.append(line)
            print(line, flush=True)
            rec['undecided'] = True
            return False
        if goal is not None and (code is None or spec is None):
            # a clause stated as a formula: numeric triage at points of the domain with the true functions
            holds, info = self.formula_compare(goal, hyps, pool)
            rec['formula_compare'] = info
            if holds is False:
                self.violation(name + '.' + path, dict(base, failing_input=None, clause_falsified_at=info['falsified_at'],
                                                       reason='the clause is false at a point of its domain (true functions, 34 digits); no input of the real function found that exceeds the property tolerance'),
                               no_input=True)
                return False
            kind = 'the clause holds at %d sampled points of its domain (true functions, 34 digits); the solver cannot derive it from the axiom list' % info['n'] if holds else 'the domain of the clause could not be sampled'
            E.TRIAGE['unproved'] += 1
            line = ('UNPROVED-IDENTITY' if holds else 'UNDECIDED') + ' property=%s obligation=%s path=%s (%s)' % (self.pid, name, path, kind)
            self.lines.append(line)
            print(line, flush=True)
            rec['unproved_identity' if holds else 'undecided'] = True
            return False
        if strict or code is None or spec is None:
            self.violation(name + '.' + path, dict(base, failing_input=None,
                                                   reason='obligation refuted / not discharged; clause has no numeric fallback (frame, wiring, index or inequality clause)'),
                           no_input=True)
            return False
        # ---- term comparison (identity clauses only)
        worst, where = self.term_compare(code, spec, hyps, pool)
        rec['term_compare_worst'] = float(worst) if worst is not None else None
        if worst is None:
            rec['term_compare'] = jsonable(where)
        if worst is None:
            line = 'UNDECIDED property=%s obligation=%s path=%s (not discharged; the domain of the clause could not be sampled for a numeric comparison of its two sides)' % (self.pid, name, path)
            self.lines.append(line)
            print(line, flush=True)
            rec['undecided'] = True
            return False
        if worst > (tol_cmp if tol_cmp is not None else mp.mpf(10) ** -30):
            self.violation(name + '.' + path, dict(base, failing_input=None, largest_deviation=str(worst), at=where,
                                                   reason='code side and specification side of the clause differ as functions (50-digit evaluation); no input found that exceeds the property tolerance'),
                           no_input=True)
            return False
        E.TRIAGE['unproved'] += 1
        line = 'UNPROVED-IDENTITY property=%s obligation=%s path=%s (sides agree to 30 digits at %s points; axiom list cannot normalise)' % (
            self.pid, name, path, where.get('n') if isinstance(where, dict) else '?')
        self.lines.append(line)
        print(line, flush=True)
        rec['unproved_identity'] = True
        return False

    @staticmethod
    def _bounds(hyps):
        """simple interval literals of the hypotheses (sym <=/>= numeral): where to draw samples of the domain"""
        lo, hi = {}, {}
        for h in hyps:
            try:
                if not (z3.is_app(h) and h.num_args() == 2):
                    continue
                kd = h.decl().kind()
                a, b = h.arg(0), h.arg(1)
                if kd not in (z3.Z3_OP_LE, z3.Z3_OP_LT, z3.Z3_OP_GE, z3.Z3_OP_GT):
                    continue
                if z3.is_const(a) and a.decl().kind() == z3.Z3_OP_UNINTERPRETED and (z3.is_rational_value(b) or z3.is_int_value(b)):
                    nm, v, upper = a.decl().name(), float(b.as_fraction()), kd in (z3.Z3_OP_LE, z3.Z3_OP_LT)
                elif z3.is_const(b) and b.decl().kind() == z3.Z3_OP_UNINTERPRETED and (z3.is_rational_value(a) or z3.is_int_value(a)):
                    nm, v, upper = b.decl().name(), float(a.as_fraction()), kd in (z3.Z3_OP_GE, z3.Z3_OP_GT)
                else:
                    continue
                if upper:
                    hi[nm] = min(hi.get(nm, v), v)
                else:
                    lo[nm] = max(lo.get(nm, v), v)
            except Exception:
                continue
        return lo, hi

    def _samples(self, terms, hyps, pool, n):
        syms = E.free_symbols(list(terms) + list(hyps))
        names = [k for k in syms if k != 'pi' and (z3.is_real(syms[k]) or z3.is_int(syms[k]))]
        def _says_int(h, k):
            # is_int(k), or its expanded form k == to_real(to_int(k))
            if not z3.is_app(h):
                return False
            if h.decl().kind() == z3.Z3_OP_IS_INT:
                return k in E.free_symbols([h])
            if h.decl().kind() == z3.Z3_OP_EQ and h.num_args() == 2:
                for a_, b_ in ((h.arg(0), h.arg(1)), (h.arg(1), h.arg(0))):
                    if z3.is_const(a_) and a_.decl().name() == k and z3.is_app(b_) and b_.decl().kind() == z3.Z3_OP_TO_REAL and b_.num_args() == 1 \
                            and z3.is_app(b_.arg(0)) and b_.arg(0).decl().kind() == z3.Z3_OP_TO_INT and b_.arg(0).arg(0).eq(a_):
                        return True
            return False
        ints = {k for k in names if z3.is_int(syms[k]) or any(_says_int(h, k) for h in hyps)}
        lo, hi = self._bounds(hyps)
        rng = random.Random(12345)
        envs = [dict(w) for w in pool]
        for _ in range(n * 8):
            e = {}
            for k in names:
                if k in lo and k in hi:
                    v = rng.uniform(lo[k], hi[k]) if rng.random() < 0.85 else rng.choice([lo[k], hi[k], (lo[k] + hi[k]) / 2])
                elif k in lo:
                    v = lo[k] + abs(rng.uniform(0, 2)) * rng.choice([1, 10, 1e3])
                elif k in hi:
                    v = hi[k] - abs(rng.uniform(0, 2)) * rng.choice([1, 10, 1e3])
                else:
                    v = rng.uniform(-2, 2) * rng.choice([1, 1, 10, 1e3])
                e[k] = float(round(v)) if k in ints else v
            envs.append(e)
        for e in envs:
            for k in names:
                e.setdefault(k, rng.uniform(-2, 2))
            for k, v in self.uf_env.items():
                e.setdefault(k, v)
        return names, envs

    def formula_compare(self, goal, hyps, pool, n=24):
        """numeric triage of an undischarged clause that is a FORMULA (not a pair of terms): the goal is evaluated with the true
        functions at points of the domain (all hypotheses hold there).  Returns (holds_everywhere, info)."""
        names, envs = self._samples([goal], hyps, pool, n)
        ok, bad = 0, None
        for env in envs:
            try:
                if hyps and not all(E.evaluate(h, env) for h in hyps):
                    continue
                v = E.evaluate(goal, env, dps=34, tol=mp.mpf(10) ** -20)
            except (ZeroDivisionError, ValueError, KeyError, NotImplementedError, TypeError, OverflowError):
                continue
            ok += 1
            if not v:
                bad = {k: float(val) for k, val in env.items() if not callable(val)}
                break
            if ok >= n:
                break
        return (None if ok == 0 else bad is None), dict(n=ok, falsified_at=bad)

    def term_compare(self, code, spec, hyps, pool, n=24):
        names, envs = self._samples([code, spec], hyps, pool, n)
        worst = mp.mpf(0)
        where = {}
        ok = 0
        why = {}
        for env in envs:
            try:
                if hyps and not all(E.evaluate(h, env) for h in hyps):
                    why['hypotheses false'] = why.get('hypotheses false', 0) + 1
                    continue
                a = E.evaluate(code, env, dps=34)
                b = E.evaluate(spec, env, dps=34)
            except (ZeroDivisionError, ValueError, KeyError, NotImplementedError, TypeError, OverflowError) as ex_:
                k_ = '%s: %s' % (type(ex_).__name__, str(ex_)[:60])
                why[k_] = why.get(k_, 0) + 1
                continue
            if isinstance(a, mp.mpc) or isinstance(b, mp.mpc):
                continue
            ok += 1
            d = abs(a - b) / max(1, abs(b))
            if d > worst:
                worst = d
                where = dict(env={k: float(v) for k, v in env.items() if not callable(v)})
            if ok >= n:
                break
        if ok == 0:
            # which hypotheses the drawn points fail (diagnosis of an unsampled domain; recorded with the obligation)
            cnt = {}
            for env in (envs[:6] if os.environ.get('VERIF_DEBUG_SAMPLES') == '1' else []):      # slow on large path conditions: on request only
                for h in hyps:
                    try:
                        v = E.evaluate(h, env)
                    except Exception as ex_:
                        v = 'raises %s' % type(ex_).__name__
                    if v is not True:
                        k_ = str(h).replace('\n', ' ')[:160] + (' [%s]' % v if v is not False else '')
                        cnt[k_] = cnt.get(k_, 0) + 1
            return None, dict(n=0, drawn=len(envs), rejected=why, hypotheses_failed=sorted(cnt.items(), key=lambda kv: -kv[1])[:4])
        where['n'] = ok
        return worst, where

    # ------------------------------------------------------------------ Layer B
    def bounded_result(self, name, function, evaluations, distinct, rule, samples, failures, exhaustive=False, extra=None):
        """failures: list of dict(input=..., what=..., observed=..., expected=...) found on the REAL code"""
        self.functions.add(function)
        rec = dict(name=name, function=function, evaluations=int(evaluations), distinct_nontrivial=int(distinct), rule=rule,
                   samples=jsonable(list(samples)[:5]), failures=len(failures), exhaustive=bool(exhaustive))
        if extra:
            rec.update(jsonable(extra))
        self.bounded.append(rec)
        self.log('  [bounded %s] %s: %d evaluations, %d distinct, %d failing' % ('exhaustive' if exhaustive else '', name, evaluations, distinct, len(failures)))
        new = 0
        knownc = 0
        for fl in failures:
            kf = self._known_match('B', name, fl.get('input'))
            if kf:
                knownc += 1
                self._emit_known(kf)
                continue
            new += 1
            if new <= 3:
                self.violation(name + ('.%d' % new), dict(layer='B', function=function, check=name, failing_input=fl))
            else:
                self.viol += 1
        rec['known_failures'] = knownc
        rec['new_failures'] = new
        return new == 0

    def crosscheck(self, points, worst_rel, covered, total):
        self.xcheck['points'] += points
        self.xcheck['worst_rel'] = max(self.xcheck['worst_rel'], float(worst_rel))
        self.xcheck['paths_covered'] += covered
        self.xcheck['paths_total'] += total

    # ------------------------------------------------------------------ finish
    def finish(self, level='proof', checker_cmd=None, explanation=None):
        self.finished = True
        if ST.FINDINGS:
            # written module state (vp/state.py): one obligation per explored contract thunk
            agg = {}
            for f_ in ST.FINDINGS:
                a_ = agg.setdefault(f_['label'], dict(plain=0, history=0, dependent=0, unknown=0, example=None))
                for k_ in ('plain', 'history', 'dependent', 'unknown'):
                    a_[k_] += f_[k_]
                a_['example'] = a_['example'] or f_['example']
            what = '; '.join(ST.describe())[:300]
            for label, a_ in agg.items():
                note = 'after an arbitrary earlier call (renamed symbols) every path returns the value of a plain path, free of history symbols: %d plain, %d history, %d dependent, %d undecided; %s' % (
                    a_['plain'], a_['history'], a_['dependent'], a_['unknown'], a_['example'] or '')
                if a_['dependent']:
                    self.oblige('state_independence[%s]' % label, what, '%d history paths' % a_['history'],
                                dict(result='sat', backend='two-call history exploration, z3', ms=0), strict=True, note=note)
                else:
                    res_ = 'discharged' if not a_['unknown'] else 'unknown'
                    self.obl.append(dict(name='state_independence[%s]' % label, function=what, path='%d history paths' % a_['history'], result=res_,
                                         backend='two-call history exploration, z3', ms=0, note=note))
                    if a_['unknown']:
                        line = 'UNDECIDED property=%s obligation=state_independence[%s] (implication between path conditions not decided in the budget)' % (self.pid, label)
                        self.lines.append(line)
                        print(line, flush=True)
            ST.FINDINGS.clear()
        counted = [o for o in self.obl if not o.get('known_finding')]
        n = len(counted)
        nd = sum(o['result'] == 'discharged' for o in counted)
        if n == 0 and level == 'proof':
            print('ENGINE-ERROR: zero obligations generated for %s' % self.pid, flush=True)
            sys.exit(3)
        be = {}
        for o in self.obl:
            be[o.get('backend') or '?'] = be.get(o.get('backend') or '?', 0) + 1
        evals = sum(b['evaluations'] for b in self.bounded)
        dist = sum(b['distinct_nontrivial'] for b in self.bounded)
        samples = []
        for o in self.obl[:3]:
            samples.append(dict(obligation=o['name'], function=o['function'], path=o['path'], result=o['result']))
        for b in self.bounded[:3]:
            samples += b['samples'][:1]
        cov = dict(obligations=n, discharged=nd,
                   checker_cmd=checker_cmd or ('./check %s --tier %s' % (self.pid, self.tier)),
                   trusted_base=self.trusted,
                   functions_under_contract=sorted(self.functions),
                   obligations_detail=self.obl,
                   backends=be,
                   solver_ms=sum((o.get('ms') or 0) for o in self.obl),
                   solver_queries=len(E.QLOG),
                   loops_cut=self.loops, summaries_assumed=self.summaries,
                   written_module_state=ST.describe(),
                   max_abstraction_query_time_s=round(E.ABS_MAX[0], 2),
                   cvc5_recheck_of_discharging_queries=dict(E.RECHECK) if E.THOROUGH else 'thorough tier only',
                   engine_crosscheck=self.xcheck,
                   known_findings_reported=[list(k) for k in self.known_hit],
                   unproved_identities=[o['name'] for o in self.obl if o.get('unproved_identity')],
                   vacuous_obligations=[o['name'] + ' [' + o['path'] + ']' for o in self.obl if o.get('vacuous')],
                   bounded=self.bounded,
                   evaluations=max(evals, 1) if self.bounded else n,
                   distinct_nontrivial=max(dist, 2) if self.bounded and dist >= 2 else max(n, 2),
                   rule='Layer P: one obligation per (function, path, clause), all inputs; Layer B (bounded stand-in, never counted as proved): ' +
                        '; '.join(b['name'] + ': ' + b['rule'] for b in self.bounded),
                   samples=samples or [dict(note='no samples')],
                   exhaustive=bool(self.bounded) and all(b['exhaustive'] for b in self.bounded),
                   notes=self.notes)
        if explanation:
            cov['explanation'] = explanation
        ev = dict(property_id=self.pid, tier=self.tier, seed=self.seed, level=level, coverage=cov,
                  assumptions=self.assumptions, wall_s=round(time.time() - self.t0, 2), violations=self.viol)
        ev = jsonable(ev)
        p = os.path.join(self.out, 'evidence', self.pid + '.json')
        with open(p, 'w') as f:
            json.dump(ev, f, indent=1)
        try:
            import jsonschema
            sch = '/root/.vp/EVIDENCE.schema.json'
            if os.path.exists(sch):
                jsonschema.validate(ev, json.load(open(sch)))
        except ImportError:
            pass
        nv = sum(1 for o in self.obl if o.get('vacuous'))
        print('%s: obligations %d discharged %d (vacuous %d) | bounded evaluations %d | violations %d | %.1fs' % (
            self.pid, n, nd, nv, evals, self.viol, time.time() - self.t0), flush=True)
        if os.environ.get('VERIF_REPLAY_OBLIGATION') and not getattr(self, 'replay_seen', False):
            print('replay: the obligation %s is no longer generated on this tree' % os.environ['VERIF_REPLAY_OBLIGATION'], flush=True)
        sys.exit(1 if self.viol else 0)
