"""Structural string model (DESIGN 2.2): no SMT string theory.  A SymStr is a list of pieces: literal str |
('dec', int-term, lo, hi) decimal rendering of an integer known to lie in [lo, hi] | ('fix', int-term, width) zero-padded
fixed-width integer.  Only concatenation, len, a slice with constant start on a fixed-digit-count piece and the format
specs {:0Nd} {:Nd} {:.0f} {:0N.0f} of bounded integers are supported; anything else is an EngineError."""
import z3, builtins, ast
from .sym import EngineError


class IntSym:
    """bounded symbolic integer (ghost clock fields)"""

    def __init__(s, t, lo, hi):
        s.t, s.lo, s.hi = t, lo, hi


class SymStr:
    def __init__(s, pieces):
        s.p = list(pieces)

    def __add__(s, o):
        return SymStr(s.p + (o.p if isinstance(o, SymStr) else [o]))

    def __radd__(s, o):
        return SymStr([o] + s.p)

    def length(s):
        tot = z3.IntVal(0)
        for q in s.p:
            if isinstance(q, str):
                tot = tot + len(q)
            elif q[0] == 'fix':
                tot = tot + q[2]
            else:
                _, t, lo, hi = q
                if lo < 0:
                    raise EngineError('decimal rendering of a possibly negative integer')
                d = z3.IntVal(1)
                k = 10
                while k <= hi:
                    d = d + z3.If(t >= k, 1, 0)
                    k *= 10
                tot = tot + d
        return z3.simplify(tot)

    def __getitem__(s, sl):
        if not (isinstance(sl, slice) and sl.stop is None and sl.step is None and len(s.p) == 1 and not isinstance(s.p[0], str) and s.p[0][0] == 'dec'):
            raise EngineError('unsupported string indexing')
        _, t, lo, hi = s.p[0]
        nd = len(builtins.str(lo))
        if len(builtins.str(hi)) != nd:
            raise EngineError('slice of a decimal rendering needs a fixed digit count')
        k = nd - sl.start
        return SymStr([('fix', t % (10 ** k), k)])


def sstr(x):
    if isinstance(x, IntSym):
        return SymStr([('dec', x.t, x.lo, x.hi)])
    return builtins.str(x)


def vp_format(spec, x):
    import re
    if not isinstance(x, IntSym):
        return spec.format(x)
    m = re.fullmatch(r'\{:0?(\d+)d\}', spec)
    if m:
        w = int(m.group(1))
        if spec.startswith('{:0') and x.hi < 10 ** w and x.lo >= 0:
            return SymStr([('fix', x.t, w)])
        raise EngineError('format %r of a bounded integer' % spec)
    if spec == '{:.0f}' and x.lo >= 0:
        return SymStr([('dec', x.t, x.lo, x.hi)])           # integral value: decimal digits, no padding requested
    m = re.fullmatch(r'\{:0(\d+)\.0f\}', spec)
    if m and x.lo >= 0 and x.hi < 10 ** int(m.group(1)):
        return SymStr([('fix', x.t, int(m.group(1)))])
    raise EngineError('unsupported format spec %r' % spec)


class FormatReroute(ast.NodeTransformer):
    """'<literal>'.format(x)  ->  __vp_format('<literal>', x)   (the only rewrite: DESIGN 2.4 item 2)"""

    def visit_Call(s, n):
        s.generic_visit(n)
        if isinstance(n.func, ast.Attribute) and n.func.attr == 'format' and isinstance(n.func.value, ast.Constant) and isinstance(n.func.value.value, str) and len(n.args) == 1:
            return ast.copy_location(ast.Call(ast.Name('__vp_format', ast.Load()), [n.func.value] + n.args, []), n)
        return n
