"""Hidden module state as ghost state of the contracts (DESIGN 2.4b).

A function under contract is specified as a function of its arguments.  When the module it lives in keeps mutable state
that some function WRITES (a module-level dict / list / set stored through or mutated inside a function, a `global`
rebinding, a mutable default argument, a class-level container, an lru_cache), that state is an additional, implicit
input of every function that reads it, and the contract has to hold for every value the state can have.  The engine
obtains "every value the state can have after one earlier call" deductively:

    restore the import-time snapshot;  run the SAME contract thunk once (the "earlier call", all its paths);
    rename every symbol held in the state containers and in the earlier call's path condition to a history copy
    `<name>__h` (the earlier call had other, unrelated arguments);  then run the contract thunk - its result is what the
    obligations of the property judge.

Entries keyed by object identity keep the symbols reachable from the key object unrenamed (an entry filed under an object
can only have been made by a call that was given that very object).  A correctly keyed memo then yields, on the hit path,
the literals `k__h == k` for every key component; those are substituted into the result, which becomes free of history
symbols and the obligations discharge exactly as without the memo.  A memo whose key omits something the stored value
depends on leaves history symbols in the result; the obligation fails, the model gives both calls, and the refuter replays
that two-call history natively.  Without written module state (the unchanged tree) none of this is active."""
import ast, copy, inspect, os, weakref
import z3
import numpy as np
from . import sym as S
from .sym import Sym, SymB

HIST = '__h'
STATE = []                     # dict(kind, owner, name, get, snap, where)
RECORDERS = weakref.WeakSet()  # call recorders (Summary / Rec): cleared between the earlier call and the call
_SCANNED = set()
MUTATORS = {'sort', 'append', 'extend', 'pop', 'remove', 'insert', 'clear', 'update', 'reverse', 'setdefault', 'popitem', 'add', 'discard',
            'appendleft', 'popleft', '__setitem__', '__delitem__', 'move_to_end', 'fill', 'put', 'itemset', 'resize'}
CONTAINERS = (dict, list, set, bytearray)
try:
    import collections
    CONTAINERS = CONTAINERS + (collections.deque,)
except Exception:
    pass


def _base(e):
    while isinstance(e, (ast.Attribute, ast.Subscript)):
        e = e.value
    return e.id if isinstance(e, ast.Name) else None


def _attr_chain(e):
    """`self.x[..]` / `cls.x.y` -> ('self', 'x')"""
    chain = []
    while isinstance(e, (ast.Attribute, ast.Subscript)):
        if isinstance(e, ast.Attribute):
            chain.append(e.attr)
        e = e.value
    if isinstance(e, ast.Name) and chain:
        return e.id, chain[-1]
    return None, None


def _locals(fn):
    loc = {a.arg for a in fn.args.args + fn.args.kwonlyargs + fn.args.posonlyargs}
    if fn.args.vararg:
        loc.add(fn.args.vararg.arg)
    if fn.args.kwarg:
        loc.add(fn.args.kwarg.arg)
    glob = set()
    for n in ast.walk(fn):
        if isinstance(n, ast.Global):
            glob.update(n.names)
    for n in ast.walk(fn):
        if isinstance(n, ast.Name) and isinstance(n.ctx, ast.Store) and n.id not in glob:
            loc.add(n.id)
    return loc, glob


def scan(mod):
    """register the written module-level state of `mod` (idempotent).  Over-approximating on what counts as a write
    (any store through / mutator call on the name or on a local alias of it), exact on what exists at run time."""
    if mod.__name__ in _SCANNED:
        return
    _SCANNED.add(mod.__name__)
    try:
        src = inspect.getsource(mod)
    except (OSError, TypeError):
        return
    tree = ast.parse(src)
    top = set()
    for n in tree.body:
        if isinstance(n, (ast.Assign, ast.AnnAssign, ast.AugAssign)):
            for t in ast.walk(n):
                if isinstance(t, ast.Name) and isinstance(t.ctx, ast.Store):
                    top.add(t.id)
    classes = {n.name: n for n in ast.walk(tree) if isinstance(n, ast.ClassDef)}
    class_attrs = {}
    for cn, c in classes.items():
        for n in c.body:
            if isinstance(n, ast.Assign):
                for t in n.targets:
                    if isinstance(t, ast.Name):
                        class_attrs.setdefault(cn, set()).add(t.id)
    written, rebound, cls_written, dflt, passed = {}, {}, {}, [], {}
    funcs = [n for n in ast.walk(tree) if isinstance(n, (ast.FunctionDef, ast.AsyncFunctionDef))]
    owner_class = {}
    for cn, c in classes.items():
        for n in c.body:
            if isinstance(n, (ast.FunctionDef, ast.AsyncFunctionDef)):
                owner_class[id(n)] = cn
    for fn in funcs:
        loc, glob = _locals(fn)
        alias = {}
        for n in ast.walk(fn):
            if isinstance(n, ast.Assign) and isinstance(n.value, ast.Name) and n.value.id in top and n.value.id not in loc:
                for t in n.targets:
                    if isinstance(t, ast.Name):
                        alias[t.id] = n.value.id

        def resolve(b):
            if b is None:
                return None
            if b in alias:
                return alias[b]
            if b in top and (b not in loc or b in glob):
                return b
            return None
        params = [a.arg for a in fn.args.args]
        ndef = len(fn.args.defaults)
        dparams = params[len(params) - ndef:] if ndef else []
        for n in ast.walk(fn):
            tgts = []
            if isinstance(n, ast.Assign):
                tgts = list(n.targets)
            elif isinstance(n, (ast.AugAssign, ast.AnnAssign)):
                tgts = [n.target]
            elif isinstance(n, ast.Delete):
                tgts = list(n.targets)
            flat = []
            for t in tgts:
                flat += list(t.elts) if isinstance(t, (ast.Tuple, ast.List)) else [t]
            for q in flat:
                if isinstance(q, (ast.Attribute, ast.Subscript)):
                    g = resolve(_base(q))
                    if g:
                        written.setdefault(g, (fn.name, n.lineno))
                    b, a = _attr_chain(q)
                    if b in ('self', 'cls') or b in classes:
                        cn = owner_class.get(id(fn)) if b in ('self', 'cls') else b
                        if cn and a in class_attrs.get(cn, ()) and isinstance(q, ast.Subscript):
                            cls_written.setdefault((cn, a), (fn.name, n.lineno))
                    if _base(q) in dparams:
                        dflt.append((fn, _base(q), n.lineno))
                elif isinstance(q, ast.Name) and q.id in glob:
                    rebound.setdefault(q.id, (fn.name, n.lineno))
            if isinstance(n, ast.Call):
                # a module-level container handed to another function may be written there (over-approximation: it is then treated as state)
                for a_ in list(n.args) + [k_.value for k_ in n.keywords]:
                    if isinstance(a_, ast.Name):
                        g = resolve(a_.id)
                        if g and isinstance(mod.__dict__.get(g), CONTAINERS) and not isinstance(n.func, ast.Attribute):
                            passed.setdefault(g, (fn.name, n.lineno))
            if isinstance(n, ast.Call) and isinstance(n.func, ast.Attribute) and n.func.attr in MUTATORS:
                g = resolve(_base(n.func.value))
                if g:
                    written.setdefault(g, (fn.name, n.lineno))
                b, a = _attr_chain(n.func.value) if isinstance(n.func.value, (ast.Attribute, ast.Subscript)) else (None, None)
                if b in ('self', 'cls') or b in classes:
                    cn = owner_class.get(id(fn)) if b in ('self', 'cls') else b
                    if cn and a in class_attrs.get(cn, ()):
                        cls_written.setdefault((cn, a), (fn.name, n.lineno))
                if _base(n.func.value) in dparams:
                    dflt.append((fn, _base(n.func.value), n.lineno))
    # containers passed on are state only if some function of the module stores through a parameter at all
    param_store = False
    for fn in funcs:
        ps = {a.arg for a in fn.args.args}
        for n in ast.walk(fn):
            tg = n.targets if isinstance(n, ast.Assign) else ([n.target] if isinstance(n, ast.AugAssign) else [])
            for q in tg:
                if isinstance(q, ast.Subscript) and _base(q) in ps:
                    param_store = True
            if isinstance(n, ast.Call) and isinstance(n.func, ast.Attribute) and n.func.attr in MUTATORS and _base(n.func.value) in ps:
                param_store = True
    if param_store:
        for g, where in passed.items():
            written.setdefault(g, where)
    for g, where in written.items():
        v = mod.__dict__.get(g)
        if isinstance(v, CONTAINERS):
            _register('container', mod, g, v, where)
    for g, where in rebound.items():
        if g in mod.__dict__:
            _register('global', mod, g, None, where)
    for (cn, a), where in cls_written.items():
        c = mod.__dict__.get(cn)
        v = getattr(c, a, None) if c is not None else None
        if isinstance(v, CONTAINERS):
            _register('container', mod, '%s.%s' % (cn, a), v, where)
    scan_closures(mod)
    for fn, p, line in dflt:
        f = mod.__dict__.get(fn.name)
        f = getattr(f, '__wrapped__', f)
        if f is None or not getattr(f, '__defaults__', None):
            continue
        names = list(inspect.signature(f).parameters)
        pos = [n_ for n_ in names if inspect.signature(f).parameters[n_].default is not inspect._empty]
        if p in pos:
            v = f.__defaults__[pos.index(p)] if pos.index(p) < len(f.__defaults__) else None
            if isinstance(v, CONTAINERS):
                _register('container', mod, '%s(%s=)' % (fn.name, p), v, (fn.name, line))


def scan_closures(mod):
    """containers held in closure cells of the module's functions (decorator-made memo tables): state that survives a call"""
    import types
    seen = set()

    def walk(fn, label, depth=0):
        if not isinstance(fn, types.FunctionType) or id(fn) in seen or depth > 4:
            return
        seen.add(id(fn))
        for var, cell in zip(fn.__code__.co_freevars, fn.__closure__ or ()):
            try:
                v = cell.cell_contents
            except ValueError:
                continue
            if isinstance(v, CONTAINERS):
                _register('container', mod, 'closure:%s.%s' % (label, var), v, (label, fn.__code__.co_firstlineno))
            elif isinstance(v, types.FunctionType):
                walk(v, label, depth + 1)
        w = getattr(fn, '__wrapped__', None)
        if w is not None:
            walk(w, label, depth + 1)
    for name, v in list(mod.__dict__.items()):
        if isinstance(v, types.FunctionType) and (getattr(v, '__module__', None) == mod.__name__):
            walk(v, name)
        elif isinstance(v, type) and getattr(v, '__module__', None) == mod.__name__:
            for mname, m in list(vars(v).items()):
                f_ = getattr(m, '__func__', m)
                if isinstance(f_, types.FunctionType):
                    walk(f_, '%s.%s' % (name, mname))


def _register(kind, mod, name, obj, where):
    for e in STATE:
        if (e['owner'] is mod and e['name'] == name) or (obj is not None and e.get('obj') is obj):
            return
    try:
        snap = copy.deepcopy(obj) if kind == 'container' else copy.deepcopy(mod.__dict__[name])
    except Exception:
        snap = copy.copy(obj) if kind == 'container' else mod.__dict__[name]
    STATE.append(dict(kind=kind, owner=mod, name=name, obj=obj, snap=snap, where='%s:%s line %d' % (mod.__name__, where[0], where[1])))


def register_table(mod_name, name, table):
    STATE.append(dict(kind='container', owner=None, name=name, obj=table, snap={}, where='%s:%s (lru_cache)' % (mod_name, name)))


def describe():
    return ['%s %s written in %s' % (e['kind'], e['name'], e['where']) for e in STATE]


def _fill(obj, val):
    if isinstance(obj, dict):
        obj.clear()
        obj.update(val)
    elif isinstance(obj, (list, bytearray)):
        obj[:] = val
    elif isinstance(obj, set):
        obj.clear()
        obj.update(val)
    else:
        obj.clear()
        obj.extend(val)


def restore():
    for e in STATE:
        if e['kind'] == 'container':
            _fill(e['obj'], copy.deepcopy(e['snap']))
        else:
            setattr(e['owner'], e['name'], copy.deepcopy(e['snap']))


# ----------------------------------------------------------------------------------------------------- deep maps
_PRIM = (int, float, complex, str, bytes, bool, type(None))


def _has_t(o):
    return isinstance(getattr(o, 't', None), z3.ExprRef)


def deep_map(o, f, memo=None, keep_identity=False):
    """structure-preserving copy of o with f applied to every z3 term held by a symbolic value"""
    if memo is None:
        memo = {}
    if isinstance(o, _PRIM):
        return o
    if isinstance(o, z3.ExprRef):
        return f(o)
    k = id(o)
    if k in memo:
        return memo[k]
    if _has_t(o):
        try:
            r = copy.copy(o)
            r.t = f(o.t)
        except Exception:
            r = o
        memo[k] = r
        return r
    if isinstance(o, tuple):
        r = tuple(deep_map(x, f, memo, keep_identity) for x in o)
        if type(o) is not tuple:
            try:
                r = type(o)(*r)
            except Exception:
                pass
        return r
    if isinstance(o, list):
        r = type(o)() if type(o) is not list else []
        memo[k] = r
        list.extend(r, [deep_map(x, f, memo, keep_identity) for x in o])
        return r
    if isinstance(o, dict):
        r = {}
        memo[k] = r
        for a, b in list(o.items()):
            r[deep_map(a, f, memo, keep_identity)] = deep_map(b, f, memo, keep_identity)
        return r
    if isinstance(o, (set, frozenset)):
        return type(o)(deep_map(x, f, memo, keep_identity) for x in o)
    if isinstance(o, np.ndarray):
        if o.dtype == object:
            r = np.empty(o.shape, dtype=object)
            for idx in np.ndindex(o.shape):
                r[idx] = deep_map(o[idx], f, memo, keep_identity)
            return r
        return o
    mod = getattr(type(o), '__module__', '') or ''
    if isinstance(o, (type, weakref.ref)) or callable(o) and not hasattr(o, '__dict__'):
        return o
    if keep_identity and type(o).__eq__ is object.__eq__:
        return o                      # hashed by identity: as a key component it has to stay the very object
    if mod.startswith(('geodepy', 'vp.', 'props', 'Standalone', 'api', 'vp_')) or mod in ('__main__',):
        try:
            r = copy.copy(o)
        except Exception:
            return o
        memo[k] = r
        d = getattr(o, '__dict__', None)
        if d is not None:
            for a, b in list(d.items()):
                try:
                    object.__setattr__(r, a, deep_map(b, f, memo, keep_identity))
                except Exception:
                    pass
        for a in getattr(type(o), '__slots__', ()) or ():
            if a != 't' and hasattr(o, a):
                try:
                    object.__setattr__(r, a, deep_map(getattr(o, a), f, memo, keep_identity))
                except Exception:
                    pass
        return r
    return o


def terms_of(o, acc=None, memo=None):
    if acc is None:
        acc, memo = [], set()
    if isinstance(o, _PRIM) or id(o) in memo:
        return acc
    memo.add(id(o))
    if isinstance(o, z3.ExprRef):
        acc.append(o)
    elif _has_t(o):
        acc.append(o.t)
    elif isinstance(o, (tuple, list, set, frozenset)):
        for x in o:
            terms_of(x, acc, memo)
    elif isinstance(o, dict):
        for a, b in o.items():
            terms_of(a, acc, memo)
            terms_of(b, acc, memo)
    elif isinstance(o, np.ndarray):
        if o.dtype == object:
            for x in o.flat:
                terms_of(x, acc, memo)
    else:
        mod = getattr(type(o), '__module__', '') or ''
        if mod.startswith(('geodepy', 'vp.', 'props', 'Standalone', 'api')):
            for b in list(getattr(o, '__dict__', {}).values()):
                terms_of(b, acc, memo)
            for a in getattr(type(o), '__slots__', ()) or ():
                if hasattr(o, a):
                    terms_of(getattr(o, a), acc, memo)
    return acc


def consts_of(terms):
    out, seen, stack = {}, set(), list(terms)
    while stack:
        t = stack.pop()
        k = t.get_id()
        if k in seen:
            continue
        seen.add(k)
        if z3.is_const(t) and t.decl().kind() == z3.Z3_OP_UNINTERPRETED:
            out[t.decl().name()] = t
        stack.extend(t.children())
    return out


def _primer(exclude=()):
    cache = {}

    def f(t):
        cs = consts_of([t])
        pairs = []
        for n, c in cs.items():
            if n == 'pi' or n.endswith(HIST) or n in exclude:
                continue
            if n not in cache:
                cache[n] = z3.Const(n + HIST, c.sort())
            pairs.append((c, cache[n]))
        return z3.substitute(t, *pairs) if pairs else t
    return f


def _identity_symbols(key):
    """symbols reachable from components of a key that are hashed by identity (objects): an entry filed under such a key
    was made by a call that received that very object"""
    objs = []

    def walk(k):
        if isinstance(k, _PRIM) or _has_t(k):
            return
        if isinstance(k, (tuple, frozenset)):
            for x in k:
                walk(x)
            return
        if type(k).__eq__ is object.__eq__:
            objs.append(k)
    walk(key)
    return set(consts_of(terms_of(objs)).keys()) if objs else set()


def fingerprint(o, memo=None):
    """structural identity of the state (terms by ast id)"""
    if memo is None:
        memo = set()
    if isinstance(o, _PRIM):
        return repr(o)
    if isinstance(o, z3.ExprRef):
        return 't%d' % o.get_id()
    if _has_t(o):
        return 't%d' % o.t.get_id()
    if id(o) in memo:
        return '<cycle>'
    memo.add(id(o))
    if isinstance(o, dict):
        return '{' + ','.join(fingerprint(a, memo) + ':' + fingerprint(b, memo) for a, b in o.items()) + '}'
    if isinstance(o, (list, tuple)):
        return '[' + ','.join(fingerprint(x, memo) for x in o) + ']'
    if isinstance(o, (set, frozenset)):
        return 's[' + ','.join(sorted(fingerprint(x, memo) for x in o)) + ']'
    if isinstance(o, np.ndarray):
        return 'a[' + ','.join(fingerprint(x, memo) for x in o.flat) + ']'
    d = getattr(o, '__dict__', None)
    if d is not None and (getattr(type(o), '__module__', '') or '').startswith(('geodepy', 'vp.', 'props')):
        return type(o).__name__ + fingerprint(d, memo)
    return '%s@%x' % (type(o).__name__, id(o))


def shape(o, memo=None):
    """structure of a result with every symbolic term replaced by a placeholder (two results of the same shape can be compared term by term)"""
    if memo is None:
        memo = set()
    if isinstance(o, z3.ExprRef) or _has_t(o):
        return 't'
    if isinstance(o, _PRIM):
        return repr(o)
    if id(o) in memo:
        return '<cycle>'
    memo.add(id(o))
    if isinstance(o, dict):
        return '{' + ','.join(shape(a, memo) + ':' + shape(b, memo) for a, b in o.items()) + '}'
    if isinstance(o, (list, tuple)):
        return '[' + ','.join(shape(x, memo) for x in o) + ']'
    if isinstance(o, (set, frozenset)):
        return 's[' + ','.join(sorted(shape(x, memo) for x in o)) + ']'
    if isinstance(o, np.ndarray):
        return 'a%r[' % (o.shape,) + ','.join(shape(x, memo) for x in o.flat) + ']'
    d = getattr(o, '__dict__', None)
    if d is not None and (getattr(type(o), '__module__', '') or '').startswith(('geodepy', 'vp.', 'props')):
        return type(o).__name__ + shape(d, memo)
    return type(o).__name__


def state_fingerprint():
    return '|'.join(fingerprint(e['obj'] if e['kind'] == 'container' else getattr(e['owner'], e['name'])) for e in STATE)


def prime_state(pc, pre=()):
    """rename the symbols of the earlier call: state containers (in place) and the path condition so far"""
    allp = _primer()
    for e in STATE:
        if e['kind'] == 'container':
            o = e['obj']
            if isinstance(o, dict):
                items = []
                for k, v in list(o.items()):
                    ex = _identity_symbols(k)
                    p = _primer(ex) if ex else allp
                    items.append((deep_map(k, p, None, True), deep_map(v, p)))
                o.clear()
                for k, v in items:
                    dict.__setitem__(o, k, v)
            else:
                _fill(o, [deep_map(x, allp) for x in list(o)])
        else:
            setattr(e['owner'], e['name'], deep_map(getattr(e['owner'], e['name']), allp))
    pc[:] = [allp(c) for c in pc]
    for h in pre:
        try:
            ph = allp(h)
            if not ph.eq(h):
                pc.append(ph)
        except Exception:
            pass
    for r in list(RECORDERS):
        try:
            r.calls.clear()
        except Exception:
            pass


def _is_hist_const(t):
    return z3.is_const(t) and t.decl().kind() == z3.Z3_OP_UNINTERPRETED and t.decl().name().endswith(HIST)


def resolve_equalities(pc, val):
    """literals `k__h == e` (key hits) are solved for the history symbol and substituted everywhere"""
    for _ in range(6):
        sub = []
        done = set()
        for c in pc:
            if z3.is_eq(c) and c.num_args() == 2:
                l, r = c.arg(0), c.arg(1)
                for a, b in ((l, r), (r, l)):
                    if _is_hist_const(a) and a.get_id() not in done and a.decl().name() not in consts_of([b]):
                        sub.append((a, b))
                        done.add(a.get_id())
                        break
        if not sub:
            break
        f = lambda t: z3.substitute(t, *sub)
        pc2 = []
        for c in pc:
            c2 = z3.simplify(f(c))
            if not z3.is_true(c2):
                pc2.append(c2)
        pc[:] = pc2
        val = deep_map(val, f)
    return val


FINDINGS = []      # one record per explore() call made while written module state exists


def has_history(terms):
    return any(n.endswith(HIST) for n in consts_of(terms))


# ----------------------------------------------------------------------------------------------------- lru_cache made visible
import functools as _functools
_ORIG_LRU = _functools.lru_cache
REPO_PACKAGES = ('geodepy', 'api', 'Standalone', 'mga2gda_standalone')


def visible_lru_cache(modname='?'):
    import functools

    def lru_cache(maxsize=128, typed=False):
        def deco(fn):
            if not (getattr(fn, '__module__', '') or '').startswith(REPO_PACKAGES):
                return _ORIG_LRU(maxsize=maxsize, typed=typed)(fn)          # third-party code imported meanwhile: untouched
            table = {}

            def w(*a, **k):
                key = (a, tuple(sorted(k.items()))) if k else a
                if key in table:
                    return table[key]
                r = fn(*a, **k)
                table[key] = r
                return r
            w = functools.wraps(fn)(w)
            w.cache_clear = table.clear
            w.cache_info = lambda: (0, 0, maxsize, len(table))
            w.__vp_table__ = table
            register_table(getattr(fn, '__module__', modname), getattr(fn, '__qualname__', '?'), table)
            return w
        if callable(maxsize):
            fn, maxsize = maxsize, 128
            return deco(fn)
        return deco
    return lru_cache
