"""python -m vp.run <Cxx>: run props/<Cxx>.py:main().
An engine error (a construct of the code under analysis that the symbolic layer cannot carry, an unexpected path shape) is
never a verdict.  If it happens after the property object exists, Layer P is recorded as ABORTED (UNDECIDED line, the
obligations generated so far stay in the evidence, nothing is counted as discharged that was not), the bounded layer of the
property still runs on the real code and decides: exit 1 if it finds a failing input, exit 0 otherwise.  Anything else
(a crash before the property object exists, a crash of the bounded layer) is exit 3."""
import sys, importlib, traceback
from .sym import EngineError


def main():
    import os, faulthandler
    if os.environ.get('VERIF_STACK_S'):
        faulthandler.dump_traceback_later(float(os.environ['VERIF_STACK_S']), repeat=True)     # diagnosis of a slow run: periodic stack dump on stderr
    pid = sys.argv[1]
    try:
        mod = importlib.import_module('props.' + pid)
        mod.main()
    except SystemExit:
        raise
    except BaseException as e:
        traceback.print_exc()
        kind = 'engine error' if isinstance(e, EngineError) else 'crash of the symbolic layer (%s)' % type(e).__name__
        from . import report, bounded
        P = report.Prop.CURRENT
        if P is None or P.pid != pid or getattr(P, 'finished', False) or getattr(P, 'in_bounded', False):
            print('ENGINE-ERROR: %s: %s: %s' % (pid, kind, str(e)[:300]), flush=True)
            sys.exit(3)
        try:
            line = 'UNDECIDED property=%s obligation=layer-P (aborted: %s: %s; %d obligations were generated before the abort; the bounded layer decides)' % (
                pid, kind, str(e)[:160], len(P.obl))
            P.lines.append(line)
            print(line, flush=True)
            P.obl.append(dict(name='layerP.completed', function='(symbolic layer)', path='abort', result='aborted: %s: %s' % (kind, str(e)[:200]), backend='vp engine', ms=0, undecided=True))
            P.notes.append('Layer P aborted; verdict of this run rests on the bounded layer only')
            P.in_bounded = True
            try:
                importlib.import_module('bounded.' + pid)
                has_b = True
            except ImportError:
                has_b = False
            if has_b:
                bounded.report(P, 'bounded.' + pid)
            P.finish('exploration')
        except SystemExit:
            raise
        except BaseException:
            traceback.print_exc()
            print('ENGINE-ERROR: %s crashed in the fallback' % pid, flush=True)
            sys.exit(3)


if __name__ == '__main__':
    main()
