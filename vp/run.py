"""python -m vp.run <Cxx>: run props/<Cxx>.py:main(); engine errors exit 3 and are never a verdict."""
import sys, importlib, traceback
from .sym import EngineError


def main():
    pid = sys.argv[1]
    try:
        mod = importlib.import_module('props.' + pid)
        mod.main()
    except SystemExit:
        raise
    except EngineError as e:
        traceback.print_exc()
        print('ENGINE-ERROR: %s: %s' % (pid, e), flush=True)
        sys.exit(3)
    except BaseException:
        traceback.print_exc()
        print('ENGINE-ERROR: %s crashed' % pid, flush=True)
        sys.exit(3)


if __name__ == '__main__':
    main()
