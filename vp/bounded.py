"""Layer B driver: runs bounded/<mod>.py in clean worker interpreters (spawn: no math patch, no shims), merging results.

A bounded module defines
    chunks(tier, seed) -> list of picklable work items
    work(item)         -> list of result dicts  {check, function, n, keys:[hashable...], failures:[{input, what, ...}], samples:[...]}
    RULES              -> {check: rule text};  EXHAUSTIVE -> set of check names (optional)
"""
import multiprocessing as mpc, importlib, os, sys, traceback


def _worker(args):
    modname, item = args
    try:
        repo = os.environ.get('VERIF_REPO', '/repo')
        if repo not in sys.path:
            sys.path.insert(0, repo)
        import geodepy
        if not os.path.realpath(geodepy.__file__).startswith(os.path.realpath(repo) + os.sep):
            return ('err', 'geodepy imported from %s, not from %s' % (geodepy.__file__, repo))
        mod = importlib.import_module(modname)
        res = mod.work(item)
        for r in res:                       # every failure remembers the work item that produced it: ./check --replay re-runs that item
            for f in r.get('failures', []):
                if isinstance(f.get('input'), dict):
                    f['input'].setdefault('_chunk', item)
        return ('ok', res)
    except Exception as e:
        # an exception raised INSIDE the code under test on an input the bounded module takes as valid is a failure of that work item
        # (it cannot happen on a tree where the check passes); anything raised by the harness itself is a checker crash
        tb = traceback.extract_tb(e.__traceback__)
        repo = os.path.realpath(os.environ.get('VERIF_REPO', '/repo')) + os.sep
        if tb and os.path.realpath(tb[-1].filename).startswith(repo):
            where = '%s:%d in %s' % (os.path.relpath(tb[-1].filename, repo), tb[-1].lineno, tb[-1].name)
            call = next((f for f in reversed(tb) if not os.path.realpath(f.filename).startswith(repo)), None)
            mod = importlib.import_module(modname)
            check = sorted(getattr(mod, 'RULES', {'%s.worker' % modname: ''}))[0]
            return ('ok', [dict(check=check, function=where, n=1, keys=set(), samples=[],
                                failures=[dict(input=dict(_chunk=item, raised_at=where, called_from=(call.line if call else None)),
                                               what='the code under test raised %s: %s on an input of the bounded domain' % (type(e).__name__, str(e)[:160]))])])
        return ('err', traceback.format_exc())
    except BaseException:
        return ('err', traceback.format_exc())


def replay_chunk(modname, check, inp):
    """re-run the work item a recorded bounded failure came from (current tree) and report whether the same input fails again"""
    repo = os.environ.get('VERIF_REPO', '/repo')
    if repo not in sys.path:
        sys.path.insert(0, repo)
    mod = importlib.import_module(modname)
    item = inp.get('_chunk')
    if item is None:
        return dict(note='this record carries no work item: re-run the check', input=inp)
    key = {k: v for k, v in inp.items() if k != '_chunk'}
    if 'raised_at' in key:
        st, res = _worker((modname, item))
        if st == 'ok' and res and res[0].get('failures') and 'raised_at' in (res[0]['failures'][0].get('input') or {}):
            return res[0]['failures'][0]
        return None if st == 'ok' else dict(what='worker crashed', detail=res[-500:])
    for r in mod.work(item):
        if r['check'] != check:
            continue
        for f in r.get('failures', []):
            fi = {k: v for k, v in (f.get('input') or {}).items() if k != '_chunk'}
            if fi == key:
                return f
    return None


def run(modname, tier, seed, procs=None):
    mod = importlib.import_module(modname)
    items = mod.chunks(tier, seed)
    procs = procs or min(16, os.cpu_count() or 4, max(1, len(items)))
    ctx = mpc.get_context('spawn')
    merged = {}
    with ctx.Pool(procs) as pool:
        for status, res in pool.imap_unordered(_worker, [(modname, it) for it in items]):
            if status == 'err':
                raise RuntimeError('bounded worker crashed:\n' + res)
            for r in res:
                m = merged.setdefault(r['check'], dict(function=r['function'], n=0, keys=set(), failures=[], samples=[]))
                m['n'] += r['n']
                m['keys'].update(r.get('keys', ()))
                m['failures'] += r.get('failures', [])
                if len(m['samples']) < 5:
                    m['samples'] += r.get('samples', [])[:2]
    return merged, getattr(mod, 'RULES', {}), getattr(mod, 'EXHAUSTIVE', set())


def report(P, modname):
    P.in_bounded = True
    if os.environ.get('VERIF_SKIP_B') == '1':          # development aid only
        P.notes.append('Layer B skipped (VERIF_SKIP_B=1)')
        return {}
    merged, rules, exh = run(modname, P.tier, P.seed)
    for check in sorted(merged):
        m = merged[check]
        P.bounded_result(check, m['function'], m['n'], len(m['keys']), rules.get(check, ''), m['samples'], m['failures'],
                         exhaustive=check in exh)
    return merged
