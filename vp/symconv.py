"""z3 arithmetic term <-> sympy expression (sympy is used only as a TERM PRODUCER, e.g. to differentiate a term that was
extracted from the real code; z3 remains the judge of every identity)."""
import z3
import sympy as sp


def to_sympy(t, syms=None):
    syms = {} if syms is None else syms
    memo = {}

    def cv(x):
        k = x.get_id()
        if k in memo:
            return memo[k][1]
        if z3.is_rational_value(x):
            r = sp.Rational(x.numerator_as_long(), x.denominator_as_long())
        elif z3.is_int_value(x):
            r = sp.Integer(x.as_long())
        elif z3.is_const(x) and x.decl().kind() == z3.Z3_OP_UNINTERPRETED:
            r = syms.setdefault(x.decl().name(), sp.Symbol(x.decl().name(), real=True))
        elif z3.is_app(x):
            kd = x.decl().kind()
            a = [cv(c) for c in x.children()]
            if kd == z3.Z3_OP_ADD:
                r = sp.Add(*a)
            elif kd == z3.Z3_OP_MUL:
                r = sp.Mul(*a)
            elif kd == z3.Z3_OP_SUB:
                r = a[0] - sp.Add(*a[1:]) if len(a) > 1 else -a[0]
            elif kd == z3.Z3_OP_UMINUS:
                r = -a[0]
            elif kd == z3.Z3_OP_DIV:
                r = a[0] / a[1]
            elif kd == z3.Z3_OP_TO_REAL:
                r = a[0]
            elif kd == z3.Z3_OP_UNINTERPRETED:
                f = syms.setdefault('F:' + x.decl().name(), sp.Function(x.decl().name()))
                r = f(*a)
            else:
                raise NotImplementedError('to_sympy: %s' % x.decl().name())
        else:
            raise NotImplementedError(str(x))
        memo[k] = (x, r)
        return r
    return cv(t), syms


def to_z3(e, env):
    """sympy expression -> z3 term; env: symbol name -> z3 term, function name -> z3 FuncDecl"""
    if e.is_Rational:
        return z3.Q(int(e.p), int(e.q))
    if e.is_Number:
        raise NotImplementedError('non-rational number %r' % e)
    if e.is_Symbol:
        return env[e.name]
    if e.is_Add:
        r = to_z3(e.args[0], env)
        for a in e.args[1:]:
            r = r + to_z3(a, env)
        return r
    if e.is_Mul:
        r = to_z3(e.args[0], env)
        for a in e.args[1:]:
            r = r * to_z3(a, env)
        return r
    if e.is_Pow:
        b, ex = e.args
        if ex.is_Integer:
            n = int(ex)
            bb = to_z3(b, env)
            r = z3.RealVal(1)
            for _ in range(abs(n)):
                r = r * bb
            return r if n >= 0 else 1 / r
        raise NotImplementedError('power %r' % (e,))
    if e.is_Function:
        return env[e.func.__name__](*[to_z3(a, env) for a in e.args])
    raise NotImplementedError(str(type(e)))
