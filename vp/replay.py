"""python -m vp.replay <file>: re-run a recorded failing input against the current tree."""
import sys, json, importlib, traceback


def main():
    import os
    p = sys.argv[1]
    d = json.load(open(p))
    pid = d['property']
    repo = os.environ.get('VERIF_REPO', '/repo')
    if repo not in sys.path:
        sys.path.insert(0, repo)          # the tree under replay, not whatever copy is installed
    import geodepy
    if not os.path.realpath(geodepy.__file__).startswith(os.path.realpath(repo) + os.sep):
        print('ENGINE-ERROR: geodepy imported from %s, not from %s' % (geodepy.__file__, repo))
        sys.exit(3)
    fi = d.get('failing_input') or {}
    inp = fi.get('input', fi) if isinstance(fi, dict) else {}
    chunk = inp.get('_chunk') if isinstance(inp, dict) else None
    if isinstance(chunk, dict) and chunk.get('tz'):
        import time
        os.environ['TZ'] = chunk['tz']          # the time zone is part of the recorded configuration
        time.tzset()
    r = None
    try:
        mod = importlib.import_module('props.' + pid)
        if hasattr(mod, 'replay'):
            if isinstance(fi, dict) and fi.get('history_input'):
                # a two-call history: the earlier call first (same process, so written module state carries over)
                d0 = json.loads(json.dumps(d))
                d0['failing_input'] = dict(input=fi['history_input'])
                try:
                    mod.replay(d0)
                except Exception:
                    pass
            try:
                r = mod.replay(d)
            except Exception:
                traceback.print_exc()
                r = None          # the per-input replay does not understand this record: the generic replays below decide
        if isinstance(r, dict) and 'note' in r and 'observed' not in r and 'what' not in r:
            r = None              # "no per-input replay for this record"
        if not r and d.get('layer') == 'B' and chunk is not None:
            # re-run the work item the failure came from (same seed, same configuration) and look for the same input
            from . import bounded
            r = bounded.replay_chunk('bounded.' + pid, d.get('check'), inp)
            if isinstance(r, dict) and 'note' in r and 'what' not in r:
                r = None
    except SystemExit:
        raise
    except BaseException:
        traceback.print_exc()
        sys.exit(3)
    if d.get('layer') == 'P' and isinstance(r, dict) and 'note' in r and 'observed' not in r and 'what' not in r:
        r = None          # the property has no per-input replay for this record
    if not r and d.get('layer') == 'P' and d.get('obligation'):
        # no per-input replay (or it no longer fails): re-derive the recorded obligation on the current tree and triage it again
        import subprocess, tempfile, shutil
        scratch = tempfile.mkdtemp(prefix='replay_', dir='/var/tmp')
        try:
            env = dict(os.environ, VERIF_REPLAY_OBLIGATION=d['obligation'], VERIF_SKIP_B='1', VERIF_OUT=scratch, VERIF_VERBOSE='0', VERIF_SCRATCH=scratch)
            rr = subprocess.run([sys.executable, '-m', 'vp.run', pid], env=env, capture_output=True, text=True, timeout=3600)
            lines = [l for l in rr.stdout.split('\n') if l.startswith(('VIOLATION', 'UNDECIDED', 'UNPROVED', 'KNOWN-FINDING', 'replay:'))]
            if rr.returncode == 1:
                print('VIOLATION property=%s replay=%s' % (pid, p))
                print('obligation %s is again not discharged on this tree:' % d['obligation'])
                print('\n'.join(lines)[:2000])
                sys.exit(1)
            if rr.returncode not in (0, 1):
                print(rr.stdout[-1500:] + rr.stderr[-1500:])
                sys.exit(3)
            print('\n'.join(lines)[:1000])
        finally:
            shutil.rmtree(scratch, ignore_errors=True)
    if r:
        print('VIOLATION property=%s replay=%s' % (pid, p))
        print(json.dumps(r, indent=1, default=str)[:3000])
        sys.exit(1)
    print('replay: input no longer violates %s' % pid)
    sys.exit(0)


if __name__ == '__main__':
    main()
