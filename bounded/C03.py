"""Layer B for C03 (bounded stand-in: real functions, clean interpreter, 50-digit oracle)."""
import random, math
import mpmath as mp
from spec.M import MMp
from spec import geo

RULES = {
    'C03.B.llh2xyz_closed_form': 'lattice lat{0,+-90,+-1e-9,...} x lon[-360,360] x h[-1e4,4e7] x 8 ellipsoids (+ seeded random points); |native - 50-digit closed form| <= 1 micrometre; distinct = distinct (lat,lon,h,a,invf)',
    'C03.B.roundtrip': 'same lattice: llh2xyz(xyz2llh(llh2xyz(p))) within 0.02 mm of llh2xyz(p), longitude in [-180,180]',
    'C03.B.cartesian_direct': 'direct Cartesian points in all octants (|.| up to 4.6e7 m, sqrt(x^2+y^2)>0), 8 ellipsoids: llh2xyz(xyz2llh(X)) within 0.02 mm of X, lon in [-180,180]',
    'C03.B.angle_objects': 'the five angle classes as lat/lon arguments give the result of their decimal value (1e-6 m)',
}
ELLS = [(6378137, 298.257222101), (6378137, 298.257223563), (6378160, 298.25), (6378388, 297), (6310000.0, 151.0), (6399000.0, 399.0)]


def chunks(tier, seed):
    rng = random.Random(seed)
    ells = ELLS + [(rng.uniform(6.3e6, 6.4e6), rng.uniform(150, 400)) for _ in range(2)]
    nrand = 300 if tier == 'quick' else 6000
    return [dict(ell=e, seed=seed * 1000 + i, nrand=nrand, tier=tier) for i, e in enumerate(ells)]


def _check_closed(cv, C, lat, lon, h, a, invf):
    e = C.Ellipsoid(a, invf)
    nat = cv.llh2xyz(lat, lon, h, e)
    want = geo.geodetic_to_cart(mp.mpf(lat), mp.mpf(lon), mp.mpf(h), mp.mpf(a), mp.mpf(invf), MMp)
    dev = max(abs(mp.mpf(n) - w) for n, w in zip(nat, want))
    return nat, float(dev)


def work(item):
    import geodepy.convert as cv, geodepy.constants as C, geodepy.angles as ang
    mp.mp.dps = 50
    a, invf = item['ell']
    e = C.Ellipsoid(a, invf)
    rng = random.Random(item['seed'])
    lats = [0.0, 90.0, -90.0, 1e-9, -1e-9, 1e-300, 45.0, -37.81, 89.999999, -89.999999, 60.0, -10.0, 0.5]
    lons = [0.0, 180.0, -180.0, 360.0, -360.0, 90.0, -90.0, 144.96, -70.3]
    hs = [0.0, -1e4, 4e7, 1200.0, 2e7, -0.001, 35786000.0]
    pts = [(la, lo, hh) for la in lats for lo in lons for hh in hs]
    for _ in range(item['nrand']):
        pts.append((rng.uniform(-90, 90), rng.uniform(-360, 360), rng.choice([rng.uniform(-1e4, 1e4), rng.uniform(-1e4, 4e7)])))
    r1 = dict(check='C03.B.llh2xyz_closed_form', function='convert.llh2xyz', n=0, keys=set(), failures=[], samples=[])
    r2 = dict(check='C03.B.roundtrip', function='convert.xyz2llh', n=0, keys=set(), failures=[], samples=[])
    for la, lo, hh in pts:
        nat, dev = _check_closed(cv, C, la, lo, hh, a, invf)
        r1['n'] += 1
        r1['keys'].add((la, lo, hh, a, invf))
        inp = dict(lat=la, lon=lo, h=hh, a=a, invf=invf)
        if dev > 1e-6:
            r1['failures'].append(dict(input=inp, what='llh2xyz deviates from the closed form', deviation_m=dev, observed=list(nat)))
        la2, lo2, h2 = cv.xyz2llh(*nat, e)
        back = cv.llh2xyz(la2, lo2, h2, e)
        d = math.sqrt(sum((u - v) ** 2 for u, v in zip(back, nat)))
        r2['n'] += 1
        r2['keys'].add((la, lo, hh, a, invf))
        if d > 2e-5 or not (-180 <= lo2 <= 180):
            r2['failures'].append(dict(input=inp, what='xyz2llh result does not convert back / lon out of range', distance_m=d, lon=lo2))
    r1['samples'] = [dict(lat=pts[0][0], lon=pts[0][1], h=pts[0][2], a=a, invf=invf)]
    r2['samples'] = [dict(lat=pts[-1][0], lon=pts[-1][1], h=pts[-1][2], a=a, invf=invf)]
    # direct Cartesian inputs
    r3 = dict(check='C03.B.cartesian_direct', function='convert.xyz2llh', n=0, keys=set(), failures=[], samples=[])
    carts = []
    for sx in (1, -1):
        for sy in (1, -1):
            for sz in (1, -1, 0):
                for mag in (6.37e6, 6.4e6, 7e6, 2.66e7, 4.6e7):
                    for _ in range(2 if item['tier'] == 'quick' else 20):
                        u = [rng.uniform(0.01, 1) for _ in range(3)]
                        nrm = math.sqrt(sum(t * t for t in u))
                        carts.append((sx * mag * u[0] / nrm, sy * mag * u[1] / nrm, sz * mag * u[2] / nrm))
    carts += [(6.4e6, 0.0, 0.0), (0.0, -6.4e6, 0.0), (1.0, 0.0, 6.36e6), (-0.5, 0.5, -6.36e6), (6378137.0, 0.0, 1e-9), (1e-3, 0.0, 6.36e6), (0.0, -1e-6, -6.4e6), (1e-3, 1e-3, 2e7)]
    for X in carts:
        la2, lo2, h2 = cv.xyz2llh(*X, e)
        if h2 < -1e4 or h2 > 4e7:
            continue
        back = cv.llh2xyz(la2, lo2, h2, e)
        d = math.sqrt(sum((u - v) ** 2 for u, v in zip(back, X)))
        r3['n'] += 1
        r3['keys'].add(X + (a, invf))
        if d > 2e-5 or not (-180 <= lo2 <= 180):
            r3['failures'].append(dict(input=dict(x=X[0], y=X[1], z=X[2], a=a, invf=invf), what='xyz2llh result does not convert back', distance_m=d, lon=lo2))
    r3['samples'] = [dict(x=carts[0][0], y=carts[0][1], z=carts[0][2], a=a, invf=invf)]
    # angle objects
    r4 = dict(check='C03.B.angle_objects', function='convert.llh2xyz', n=0, keys=set(), failures=[], samples=[])
    for _ in range(20 if item['tier'] == 'quick' else 200):
        la, lo, hh = rng.uniform(-90, 90), rng.uniform(-360, 360), rng.uniform(-1e4, 1e5)
        ref = cv.llh2xyz(la, lo, hh, e)
        for nm, mk in (('DECAngle', lambda v: ang.DECAngle(v)), ('HPAngle', lambda v: ang.DECAngle(v).hpa()),
                       ('GONAngle', lambda v: ang.DECAngle(v).gona()), ('DMSAngle', lambda v: ang.DECAngle(v).dms()),
                       ('DDMAngle', lambda v: ang.DECAngle(v).ddm())):
            try:
                got = cv.llh2xyz(mk(la), mk(lo), hh, e)
            except ValueError as ex:
                # HPAngle constructor defects are C08's subject; not counted here
                if nm == 'HPAngle':
                    continue
                raise
            r4['n'] += 1
            r4['keys'].add((la, lo, nm))
            d = max(abs(u - v) for u, v in zip(got, ref))
            if d > 1e-6:
                r4['failures'].append(dict(input=dict(lat=la, lon=lo, h=hh, a=a, invf=invf, cls=nm), what='angle-object arguments change the result', deviation_m=d))
    r4['samples'] = [dict(cls='DMSAngle', lat=0.0)]
    return [r1, r2, r3, r4]


def replay_case(check, inp):
    import geodepy.convert as cv, geodepy.constants as C
    mp.mp.dps = 50
    if check and check.startswith('C03.B.llh2xyz_closed_form'):
        nat, dev = _check_closed(cv, C, inp['lat'], inp['lon'], inp['h'], inp['a'], inp['invf'])
        return dict(input=inp, deviation_m=dev, observed=list(nat)) if dev > 1e-6 else None
    e = C.Ellipsoid(inp['a'], inp['invf'])
    X = cv.llh2xyz(inp['lat'], inp['lon'], inp['h'], e) if 'lat' in inp else (inp['x'], inp['y'], inp['z'])
    la2, lo2, h2 = cv.xyz2llh(*X, e)
    back = cv.llh2xyz(la2, lo2, h2, e)
    d = math.sqrt(sum((u - v) ** 2 for u, v in zip(back, X)))
    return dict(input=inp, distance_m=d, lon=lo2) if (d > 2e-5 or not -180 <= lo2 <= 180) else None
