"""Layer B for C07 (bounded stand-in): conform14 vs the formula with linearly advanced parameters (50 digits)."""
import random, math, datetime, copy
import numpy as np
import mpmath as mp
from spec import helmert as H

RULES = {
    'C07.B.formula': 'every shipped set with a date reference epoch x epochs {1980-01-01 .. 2060-12-31 sampled, reference epoch, 29 Feb, day before/after the reference epoch} x points up to 1e7 m in all octants + random sets, the process running under four time zones (UTC, Central European, US Eastern, Australian Eastern - DST rules of both hemispheres): |conform14 - similarity(p + rate*days/365.25)| <= 2 micrometres; negated set at the same epoch returns the point within the second-order bound',
    'C07.B.atrf': 'ATRF2014 <-> GDA2020 wrappers on points on the Earth surface x epochs 1980..2060: mutual inverses within 5 micrometres; bit-exact identity at 2020-01-01; repeated calls with covariance give identical results (no history dependence)',
}
PARAMS = ('tx', 'ty', 'tz', 'sc', 'rx', 'ry', 'rz')


def chunks(tier, seed):
    n = 8 if tier == 'quick' else 32
    # the process time zone is part of the configuration: elapsed time between two dates must not depend on it (DST zones of both hemispheres)
    tzs = ['UTC0', 'CET-1CEST,M3.5.0,M10.5.0/3', 'EST5EDT,M3.2.0,M11.1.0', 'AEST-10AEDT,M10.1.0,M4.1.0/3']
    return [dict(seed=seed * 131 + i, i=i, n=n, pts=4 if tier == 'quick' else 40, tz=tzs[i % len(tzs)]) for i in range(n)]


def epochs(rng, ref, k):
    out = [ref, ref + datetime.timedelta(days=1), ref - datetime.timedelta(days=1), datetime.date(1980, 1, 1), datetime.date(2060, 12, 31), datetime.date(2000, 2, 29),
           datetime.date(2024, 2, 29), datetime.date(1988, 12, 31)]
    for _ in range(k):
        out.append(datetime.date(1980, 1, 1) + datetime.timedelta(days=rng.randint(0, 29585)))
    return out


def check(tr, t, X, ep):
    got = tr.conform14(X[0], X[1], X[2], ep, t)
    mp.mp.dps = 50
    dt = mp.mpf((ep - t.ref_epoch).days) / mp.mpf('365.25')
    adv = {p: mp.mpf(getattr(t, p)) + mp.mpf(getattr(t, 'd_' + p)) * dt for p in PARAMS}
    want = H.similarity([mp.mpf(v) for v in X], [adv['tx'], adv['ty'], adv['tz']], adv['sc'], [adv['rx'], adv['ry'], adv['rz']], mp.pi)
    d = max(abs(mp.mpf(g) - w) for g, w in zip(got[:3], want))
    if d > mp.mpf('2e-6'):
        return dict(what='conform14 differs from the formula with linearly advanced parameters by more than 2 micrometres', deviation_m=float(d), got=list(got[:3]))
    back = tr.conform14(got[0], got[1], got[2], ep, -t)
    nx = math.sqrt(sum(v * v for v in X))
    rmax = float(max(abs(adv['rx']), abs(adv['ry']), abs(adv['rz']))) / 206264.8
    sc = abs(float(adv['sc'])) * 1e-6
    tt = float(max(abs(adv['tx']), abs(adv['ty']), abs(adv['tz'])))
    lim = 2 * (nx * (sc ** 2 + 3 * rmax ** 2 + 2 * sc * rmax) + 1.8 * tt * (sc + 2 * rmax)) + 3e-8
    r = max(abs(b - x) for b, x in zip(back[:3], X))
    if r > lim:
        return dict(what='negated set at the same epoch does not return the point within the second-order bound', residual_m=r, bound_m=lim)
    return None


def work(item):
    import os, time
    if item.get('tz'):
        os.environ['TZ'] = item['tz']
        time.tzset()
    import geodepy.transform as tr, geodepy.constants as C
    rng = random.Random(item['seed'])
    cat = [(n, v) for n, v in sorted(vars(C).items()) if isinstance(v, C.Transformation) and isinstance(v.ref_epoch, datetime.date)]
    mine = cat[item['i']::item['n']]
    r1 = dict(check='C07.B.formula', function='transform.conform14', n=0, keys=set(), failures=[], samples=[])
    sets = list(mine)
    for k in range(2):
        sets.append(('random%d' % k, C.Transformation('A', 'B', datetime.date(rng.randint(1985, 2025), rng.randint(1, 12), rng.randint(1, 28)),
                                                      *[rng.uniform(-1, 1) for _ in range(3)], rng.uniform(-0.1, 0.1), *[rng.uniform(-0.05, 0.05) for _ in range(3)],
                                                      *[rng.uniform(-0.01, 0.01) for _ in range(3)], rng.uniform(-0.001, 0.001), *[rng.uniform(-0.002, 0.002) for _ in range(3)])))
    for name, t in sets:
        for ep in epochs(rng, t.ref_epoch, item['pts']):
            X = [rng.choice([-1, 1]) * rng.uniform(0, 1e7) for _ in range(3)]
            fl = check(tr, t, X, ep)
            r1['n'] += 1
            r1['keys'].add((name, ep.toordinal(), tuple(X)))
            if fl:
                fl['input'] = dict(set=name, X=X, epoch=ep.isoformat())
                r1['failures'].append(fl)
    r1['samples'] = [dict(set=sets[0][0], epoch='2000-02-29')]
    r2 = dict(check='C07.B.atrf', function='transform.transform_atrf2014_to_gda2020', n=0, keys=set(), failures=[], samples=[dict(epoch='2020-01-01')])
    snap = copy.deepcopy(vars(C.atrf2014_to_gda2020_sd))
    for ep in epochs(rng, datetime.date(2020, 1, 1), item['pts']):
        u = [rng.gauss(0, 1) for _ in range(3)]
        nrm = math.sqrt(sum(v * v for v in u))
        X = [6.37e6 * v / nrm for v in u]
        g = tr.transform_atrf2014_to_gda2020(X[0], X[1], X[2], ep)
        b = tr.transform_gda2020_to_atrf2014(g[0], g[1], g[2], ep)
        r2['n'] += 1
        r2['keys'].add((ep.toordinal(), tuple(X)))
        inp = dict(X=X, epoch=ep.isoformat())
        if max(abs(p - q) for p, q in zip(b[:3], X)) > 5e-6:
            r2['failures'].append(dict(input=inp, what='ATRF2014 -> GDA2020 -> ATRF2014 does not return within 5 micrometres', back=list(b[:3])))
        if ep == datetime.date(2020, 1, 1) and tuple(g[:3]) != tuple(X):
            r2['failures'].append(dict(input=inp, what='not the identity at epoch 2020.0', got=list(g[:3])))
        V = np.eye(3) * 1e-4
        a1 = tr.transform_atrf2014_to_gda2020(X[0], X[1], X[2], ep, V)
        a2 = tr.transform_atrf2014_to_gda2020(X[0], X[1], X[2], ep, V)
        if a1[3] is None or not np.array_equal(np.array(a1[3], dtype=float), np.array(a2[3], dtype=float)) or vars(C.atrf2014_to_gda2020_sd) != snap:
            r2['failures'].append(dict(input=inp, what='repeated call with covariance changes its answer or a shipped constant'))
    return [r1, r2]


def replay_case(check_, inp):
    import geodepy.transform as tr, geodepy.constants as C
    if 'set' in inp and hasattr(C, inp['set']):
        return check(tr, getattr(C, inp['set']), inp['X'], datetime.date.fromisoformat(inp['epoch']))
    return dict(note='re-run ./check C07', input=inp)
