"""Layer B for C13 (bounded stand-in): MGA94 <-> MGA2020 round trips, stepwise composition, covariance."""
import random, math
import numpy as np

RULES = {
    'C13.B.roundtrip': 'zones 46..59, eastings 100 000..900 000 m, latitudes -60..-5 deg (+ points within 1 m of zone boundaries), heights -100..3000 m and absent: 94->2020->94 and 2020->94->2020 return the ground position within 0.3 mm and the height within 0.2 mm; without input height the returned height is 0',
    'C13.B.composition': 'same points: each direction equals grid2geo -> llh2xyz -> conform7(+-gda94_to_gda2020) -> xyz2llh -> geo2grid (natural zone) evaluated step by step, exactly; no-height result equals the result for height 0',
    'C13.B.covariance': 'symmetric PSD 3x3 local covariances and 3x1 variance columns: result symmetric, PSD, equals the stepwise propagation (local->cart at input, J Q J^T, cart->local at output)',
}


def chunks(tier, seed):
    return [dict(seed=seed * 23 + i, n=60 if tier == 'quick' else 1200) for i in range(8)]


def work(item):
    import geodepy.transform as tr, geodepy.convert as cv, geodepy.constants as C, geodepy.statistics as st
    rng = random.Random(item['seed'])
    r1 = dict(check='C13.B.roundtrip', function='transform.transform_mga94_to_mga2020', n=0, keys=set(), failures=[], samples=[])
    r2 = dict(check='C13.B.composition', function='transform.transform_mga94_to_mga2020', n=0, keys=set(), failures=[], samples=[])
    r3 = dict(check='C13.B.covariance', function='transform.transform_mga94_to_mga2020', n=0, keys=set(), failures=[], samples=[])
    for k in range(item['n']):
        z = rng.randint(46, 59)
        cm = z * 6 - 183
        lat = rng.uniform(-60, -5)
        if k % 5 == 0:
            lon = cm + rng.choice([-3, 3]) + rng.uniform(-1e-5, 1e-5)       # near a zone boundary
        else:
            lon = cm + rng.uniform(-3.4, 3.4)
        h_, zn, e, n = cv.geo2grid(lat, lon, z)[:4]
        if not (100000 <= e <= 900000):
            continue
        ht = rng.choice([False, rng.uniform(-100, 3000), 0.0])
        inp = dict(zone=zn, east=e, north=n, ell_ht=ht)
        for fwd, bwd, sign, nm in ((tr.transform_mga94_to_mga2020, tr.transform_mga2020_to_mga94, 1, '94->2020'), (tr.transform_mga2020_to_mga94, tr.transform_mga94_to_mga2020, -1, '2020->94')):
            a = fwd(zn, e, n, ht)
            b = bwd(a[0], a[1], a[2], a[3] if ht is not False else False)
            r1['n'] += 1
            r1['keys'].add((zn, e, n, ht, nm))
            # compare ground positions (the back result may be expressed in a neighbouring zone)
            g0 = cv.grid2geo(zn, e, n)
            g1 = cv.grid2geo(b[0], b[1], b[2])
            d = math.hypot((g1[0] - g0[0]) * 111000, (g1[1] - g0[1]) * 111000 * math.cos(math.radians(lat)))
            dh = abs(b[3] - (ht if ht is not False else 0.0))
            if d > 3e-4 or dh > 2e-4 or (ht is False and (a[3] != 0 or b[3] != 0)):
                r1['failures'].append(dict(input=dict(inp, direction=nm), what='round trip does not return the position/height', ground_m=d, dh_m=dh, there=list(a[:4]), back=list(b[:4])))
            # stepwise composition
            t = C.gda94_to_gda2020 if sign == 1 else -C.gda94_to_gda2020
            la, lo = cv.grid2geo(zn, e, n)[:2]
            x, y, zc = cv.llh2xyz(la, lo, ht if ht is not False else 0)
            x2, y2, z2, _ = tr.conform7(x, y, zc, t)
            la2, lo2, h2 = cv.xyz2llh(x2, y2, z2)
            gg = cv.geo2grid(la2, lo2)
            want = (gg[1], gg[2], gg[3], round(h2, 4) if ht is not False else 0)
            r2['n'] += 1
            r2['keys'].add((zn, e, n, ht, nm))
            if tuple(a[:4]) != want or a[4] is not None:
                r2['failures'].append(dict(input=dict(inp, direction=nm), what='result differs from the stepwise composition', got=list(a[:4]), expected=list(want)))
            if ht is False:
                a0 = fwd(zn, e, n, 0.0)
                if tuple(a0[:3]) != tuple(a[:3]):
                    r2['failures'].append(dict(input=dict(inp, direction=nm), what='no-height result differs from the result on the ellipsoid'))
            # covariance
            G = np.array([[rng.gauss(0, 1) for _ in range(3)] for _ in range(3)])
            if k % 3 == 0:
                G[:, 2] = 0
            V = G @ G.T * 10 ** rng.uniform(-8, -3)
            for Vin in (V, np.array([[V[0, 0]], [V[1, 1]], [V[2, 2]]])):
                r3['n'] += 1
                r3['keys'].add((zn, e, n, nm, Vin.shape))
                try:
                    out = fwd(zn, e, n, ht, Vin)
                except Exception as ex:
                    r3['failures'].append(dict(input=dict(inp, direction=nm, V=Vin.tolist()), what='exception with covariance: %s: %s' % (type(ex).__name__, ex)))
                    continue
                W = out[4]
                Vc = st.vcv_local2cart(np.diagflat(Vin) if Vin.shape == (3, 1) else Vin, la, lo)     # a variance column is a diagonal matrix
                Wc = tr.conform7(x, y, zc, t, Vc)[3]
                ref = st.vcv_cart2local(Wc, la2, lo2)
                if W is None:
                    r3['failures'].append(dict(input=dict(inp, direction=nm), what='no covariance returned'))
                    continue
                W = np.array(W, dtype=float)
                sc = max(np.abs(ref).max(), 1e-300)
                if W.shape != (3, 3) or np.abs(W - W.T).max() > 1e-12 * sc or np.linalg.eigvalsh((W + W.T) / 2).min() < -1e-12 * sc or np.abs(W - np.array(ref, dtype=float)).max() > 1e-12 * sc:
                    r3['failures'].append(dict(input=dict(inp, direction=nm, V=Vin.tolist()), what='covariance not symmetric/PSD or differs from the stepwise propagation', got=W.tolist()))
    r1['samples'] = [dict(zone=53, east=386352.0, north=7381850.0, ell_ht=587.0)]
    r2['samples'] = r1['samples']
    r3['samples'] = [dict(shape='3x1')]
    return [r1, r2, r3]


def replay_case(check, inp):
    import geodepy.transform as tr
    if 'zone' in inp:
        a = tr.transform_mga94_to_mga2020(inp['zone'], inp['east'], inp['north'], inp['ell_ht'])
        b = tr.transform_mga2020_to_mga94(a[0], a[1], a[2], a[3] if inp['ell_ht'] is not False else False)
        return dict(there=list(a[:4]), back=list(b[:4]), note='re-run ./check C13 for the judgement')
    return None
