"""Layer B for C17 (bounded stand-in): synthetic NTv2 files from an independent writer, fields known analytically."""
import random, math, os, struct, tempfile, shutil

RULES = {
    'C17.B.reader': 'synthetic files, 1..5 sub-grids (nested up to three levels, disjoint, file order shuffled), 3..60 rows/cols, increments 30"..3600", positive and negative longitudes: every overview and sub-grid field reads back exactly (extents to 0.001", increments to 1e-6")',
    'C17.B.bilinear': 'fields = random polynomials exactly representable in float32 (linear / bilinear): queries on nodes, edges, interiors, outermost ring, just inside every boundary: bilinear = exact blend of the four enclosing nodes of the finest sub-grid (1e-6 + 1e-6 x cell change); outside every sub-grid four None and ntv2_2d raises; ntv2_2d signs',
    'C17.B.bicubic': 'bi-quadratic fields: bicubic reproduces them and returns node values at nodes (1e-6 + 1e-6 x cell change) for cells not in the outermost ring; the outermost ring is the known finding',
}


def rec(name, val):
    n = name.encode().ljust(8)
    if isinstance(val, int):
        return n + struct.pack('<i', val) + b'\x00' * 4
    if isinstance(val, float):
        return n + struct.pack('<d', val)
    return n + val.encode().ljust(8)


def write_gsb(path, subgrids):
    """independent writer following the NTv2 developer's guide: 11 + 11 sixteen-byte records, 16-byte nodes, rows south->north,
    columns east->west (longitude positive west)"""
    with open(path, 'wb') as f:
        for k, v in (('NUM_OREC', 11), ('NUM_SREC', 11), ('NUM_FILE', len(subgrids)), ('GS_TYPE', 'SECONDS'), ('VERSION', 'NTv2.0'), ('SYSTEM_F', 'AGD66'),
                     ('SYSTEM_T', 'GDA94'), ('MAJOR_F', 6378160.0), ('MINOR_F', 6356774.719), ('MAJOR_T', 6378137.0), ('MINOR_T', 6356752.314)):
            f.write(rec(k, v))
        for sg in subgrids:
            rows, cols = sg['rows'], sg['cols']
            for k, v in (('SUB_NAME', sg['name']), ('PARENT', sg['parent']), ('CREATED', '01012000'), ('UPDATED', '02012000'), ('S_LAT', sg['s']), ('N_LAT', sg['s'] + (rows - 1) * sg['dlat']),
                         ('E_LONG', sg['e']), ('W_LONG', sg['e'] + (cols - 1) * sg['dlon']), ('LAT_INC', sg['dlat']), ('LONG_INC', sg['dlon']), ('GS_COUNT', rows * cols)):
                f.write(rec(k, v))
            for r in range(rows):
                for c in range(cols):
                    f.write(struct.pack('<4f', *[fn(r, c) for fn in sg['fields']]))
        f.write(b'END     ' + b'\x00' * 8)


def poly_fields(rng, kind):
    """four fields as functions of (row, col) in node units with small dyadic coefficients: exact in float32 on the grid"""
    out = []
    for _ in range(4):
        c = [[rng.randint(-8, 8) / 8.0 for _ in range(3)] for _ in range(3)]
        if kind == 'lin':
            out.append(lambda u, v, c=c: c[0][0] + c[1][0] * u + c[0][1] * v)
        else:
            out.append(lambda u, v, c=c: sum(c[i][j] / 16.0 * u ** i * v ** j for i in range(3) for j in range(3)))
    return out


def chunks(tier, seed):
    return [dict(seed=seed * 41 + i, n=3 if tier == 'quick' else 30, q=120 if tier == 'quick' else 600) for i in range(8)]


def ring_witness():
    """the recorded known finding, shown on the real code: a bi-quadratic field, query in the outermost ring of cells"""
    import geodepy.ntv2reader as nr
    d = tempfile.mkdtemp(prefix='ntv2w_', dir=os.environ.get('VERIF_SCRATCH'))
    try:
        f = lambda u, v: 1.0 + 0.5 * u + 0.25 * v + 0.125 * u * v + 0.0625 * u * u
        sg = dict(name='RING', parent='NONE', s=-36.0 * 3600, e=-150.0 * 3600, dlat=300.0, dlon=600.0, rows=5, cols=5, fields=[f, f, f, f])
        p = os.path.join(d, 'ring.gsb')
        write_gsb(p, [sg])
        g = nr.read_ntv2_file(p)
        lat, lon = (sg['s'] + 0.5 * sg['dlat']) / 3600, -(sg['e'] + 2.5 * sg['dlon']) / 3600       # row 0, col 2
        want = f(0.5, 2.5)
        try:
            got = nr.interpolate_ntv2(g, lat, lon, 'bicubic')[0]
            if abs(got - want) > 1e-5:
                return dict(input=dict(rows=5, cols=5, row=0, col=2, method='bicubic', lat=lat, lon=lon), observed=got, expected=want,
                            what='bicubic stencil reads outside the sub-grid in the outermost ring of cells')
        except Exception as ex:
            return dict(input=dict(rows=5, cols=5, row=0, col=2, method='bicubic', lat=lat, lon=lon), observed='%s: %s' % (type(ex).__name__, ex), expected=want,
                        what='bicubic stencil reads outside the sub-grid in the outermost ring of cells')
        return None
    finally:
        shutil.rmtree(d, ignore_errors=True)


def work(item):
    import geodepy.ntv2reader as nr, geodepy.transform as tr
    rng = random.Random(item['seed'])
    d = tempfile.mkdtemp(prefix='ntv2_', dir=os.environ.get('VERIF_SCRATCH'))
    r0 = dict(check='C17.B.reader', function='ntv2reader.read_ntv2_file', n=0, keys=set(), failures=[], samples=[])
    r1 = dict(check='C17.B.bilinear', function='ntv2reader.interpolate_ntv2', n=0, keys=set(), failures=[], samples=[])
    r2 = dict(check='C17.B.bicubic', function='ntv2reader.interpolate_ntv2', n=0, keys=set(), failures=[], samples=[])
    try:
        for fi in range(item['n']):
            kind = 'lin' if fi % 2 == 0 else 'quad'
            nsub = rng.randint(1, 4)
            subs = []
            lon_sign = rng.choice([1, -1])
            s0 = rng.randint(-60, 50) * 3600.0
            e0 = lon_sign * rng.randint(10, 170) * 3600.0
            dl0, dn0 = rng.choice([300.0, 600.0, 3600.0]), rng.choice([300.0, 600.0, 3600.0])
            parent = dict(name='PARENT', parent='NONE', s=s0, e=e0, dlat=dl0, dlon=dn0, rows=rng.randint(6, 14), cols=rng.randint(6, 14), fields=poly_fields(rng, kind))
            subs.append(parent)
            for k in range(1, nsub):
                if k % 2 == 1:          # nested child with finer spacing inside the parent
                    fac = rng.choice([f_ for f_ in (2, 5, 10) if not any(abs(dl0 / f_ - s_['dlat']) < 1e-9 for s_ in subs)])      # overlapping sub-grids never share a spacing: "the finest one" is then well defined
                    r_lo, c_lo = rng.randint(1, parent['rows'] - 4), rng.randint(1, parent['cols'] - 4)
                    subs.append(dict(name='CHILD%d' % k, parent='PARENT', s=s0 + r_lo * dl0, e=e0 + c_lo * dn0, dlat=dl0 / fac, dlon=dn0 / fac,
                                     rows=rng.randint(3, 2 * fac) + 1, cols=rng.randint(3, 2 * fac) + 1, fields=poly_fields(rng, kind)))
                else:                   # disjoint sibling further north
                    subs.append(dict(name='OTHER%d' % k, parent='NONE', s=s0 + (parent['rows'] + 5) * dl0 + k * 86400.0, e=e0, dlat=30.0 * rng.randint(1, 4), dlon=30.0 * rng.randint(1, 4),
                                     rows=rng.randint(3, 60), cols=rng.randint(3, 60), fields=poly_fields(rng, kind)))
            if nsub >= 2 and rng.random() < 0.4:
                # a grandchild nested in the first child (three levels over the same ground), and the file order shuffled:
                # the finest sub-grid containing the point has to win whatever the order of the sub-grids in the file
                ch = subs[1]
                f2s = [f_ for f_ in (2, 3) if not any(abs(ch['dlat'] / f_ - s_['dlat']) < 1e-9 for s_ in subs)]
                if ch['rows'] >= 5 and ch['cols'] >= 5 and f2s:
                    f2 = rng.choice(f2s)
                    subs.append(dict(name='GRAND', parent=ch['name'], s=ch['s'] + ch['dlat'], e=ch['e'] + ch['dlon'], dlat=ch['dlat'] / f2, dlon=ch['dlon'] / f2,
                                     rows=rng.randint(3, 2 * f2) + 1, cols=rng.randint(3, 2 * f2) + 1, fields=poly_fields(rng, kind)))
                rng.shuffle(subs)
            p = os.path.join(d, 'g%d.gsb' % fi)
            write_gsb(p, subs)
            g = nr.read_ntv2_file(p)
            r0['n'] += 1
            r0['keys'].add((item['seed'], fi))
            ok = (g.num_orec, g.num_srec, g.num_file, g.gs_type, g.version, g.system_f, g.system_t, g.major_f, g.minor_f, g.major_t, g.minor_t) == (
                11, 11, len(subs), 'SECONDS', 'NTv2.0', 'AGD66', 'GDA94', 6378160.0, 6356774.719, 6378137.0, 6356752.314) and list(g.subgrids) == [s['name'] for s in subs]
            for s in subs:
                q = g.subgrids.get(s['name'])
                ok = ok and q is not None and (q.parent, q.created, q.updated, q.s_lat, q.n_lat, q.e_long, q.w_long, q.lat_inc, q.long_inc, q.gs_count) == (
                    s['parent'], '01/01/2000', '02/01/2000', round(s['s'], 3), round(s['s'] + (s['rows'] - 1) * s['dlat'], 3), round(s['e'], 3), round(s['e'] + (s['cols'] - 1) * s['dlon'], 3),
                    round(s['dlat'], 6), round(s['dlon'], 6), s['rows'] * s['cols'])
            if not ok:
                r0['failures'].append(dict(input=dict(file='synthetic', subgrids=[{k: v for k, v in s.items() if k != 'fields'} for s in subs]), what='metadata does not read back as written'))

            def finest(lat3, lon3):
                best = None
                for s in subs:
                    if s['s'] <= lat3 < s['s'] + (s['rows'] - 1) * s['dlat'] and s['e'] <= lon3 < s['e'] + (s['cols'] - 1) * s['dlon']:
                        if best is None or s['dlat'] < best['dlat']:
                            best = s
                return best
            for qi in range(item['q']):
                s = rng.choice(subs)
                mode = qi % 6
                u = rng.uniform(0, s['rows'] - 1 - 1e-9)
                v = rng.uniform(0, s['cols'] - 1 - 1e-9)
                if mode == 0:
                    u, v = float(rng.randint(0, s['rows'] - 2)), float(rng.randint(0, s['cols'] - 2))           # on a node
                elif mode == 1:
                    u = float(rng.randint(0, s['rows'] - 2))                                                     # on a cell edge
                elif mode == 2:
                    u, v = rng.choice([1e-7, s['rows'] - 1 - 1e-7]), rng.uniform(0, s['cols'] - 1 - 1e-9)        # just inside a boundary
                elif mode == 3:
                    u = rng.choice([-1e-6, s['rows'] - 1 + 1e-6, -3.0])                                          # just outside / outside
                lat3, lon3 = s['s'] + u * s['dlat'], s['e'] + v * s['dlon']
                lat, lon = lat3 / 3600, -lon3 / 3600
                lat3, lon3 = lat * 3600, lon * -3600          # what the library sees
                tgt = finest(lat3, lon3)
                for method, rr in (('bilinear', r1), ('bicubic', r2)):
                    if method == 'bicubic' and kind == 'lin' and qi % 3:
                        continue
                    rr['n'] += 1
                    rr['keys'].add((item['seed'], fi, qi, method))
                    inp = dict(lat=lat, lon=lon, method=method, kind=kind, subgrid=tgt['name'] if tgt else None, rows=tgt['rows'] if tgt else None, cols=tgt['cols'] if tgt else None)
                    try:
                        got = nr.interpolate_ntv2(g, lat, lon, method)
                    except Exception as ex:
                        got = ex
                    if tgt is None:
                        if isinstance(got, Exception) or got != (None, None, None, None):
                            rr['failures'].append(dict(input=inp, what='outside every sub-grid but not four None', got=repr(got)[:200]))
                        else:
                            try:
                                tr.ntv2_2d(g, lat, lon, True, method)
                                rr['failures'].append(dict(input=inp, what='ntv2_2d did not raise outside the grid'))
                            except ValueError:
                                pass
                        continue
                    uu, vv = (lat3 - tgt['s']) / tgt['dlat'], (lon3 - tgt['e']) / tgt['dlon']
                    row, col = int(uu), int(vv)
                    inp.update(row=row, col=col)
                    ring = row == 0 or col == 0 or row >= tgt['rows'] - 2 or col >= tgt['cols'] - 2
                    if method == 'bicubic' and ring:
                        inp['ring'] = True
                    if method == 'bilinear':
                        fx, fy = vv - col, uu - row
                        want = [(1 - fx) * (1 - fy) * f(row, col) + fx * (1 - fy) * f(row, col + 1) + (1 - fx) * fy * f(row + 1, col) + fx * fy * f(row + 1, col + 1) for f in tgt['fields']]
                    else:
                        want = [f(uu, vv) for f in tgt['fields']]
                    cellchg = [max(abs(f(row + a, col + b_) - f(row, col)) for a in (0, 1) for b_ in (0, 1)) for f in tgt['fields']]
                    if isinstance(got, Exception) or got[0] is None:
                        rr['failures'].append(dict(input=inp, what='no value inside a sub-grid: %r' % (got,)))
                        continue
                    dev = max(abs(a - b_) - (1e-6 + 1e-6 * ch + 6e-7 + 2e-6 * (method == 'bicubic')) for a, b_, ch in zip(got, want, cellchg))
                    if dev > 0:
                        rr['failures'].append(dict(input=inp, what='interpolated value differs from the analytic field', got=list(got), expected=want))
                    elif method == 'bilinear' and qi % 10 == 0:
                        tf = tr.ntv2_2d(g, lat, lon, True, 'bilinear')
                        tb = tr.ntv2_2d(g, lat, lon, False, 'bilinear')
                        if abs(tf[0] - (lat + got[0] / 3600)) > 1e-12 or abs(tf[1] - (lon - got[1] / 3600)) > 1e-12 or abs(tb[0] - (lat - got[0] / 3600)) > 1e-12 or abs(tb[1] - (lon + got[1] / 3600)) > 1e-12:
                            rr['failures'].append(dict(input=inp, what='ntv2_2d applies the shifts with the wrong sign/unit', forward=list(tf), reverse=list(tb)))
    finally:
        shutil.rmtree(d, ignore_errors=True)
    r0['samples'] = [dict(subgrids=2)]
    r1['samples'] = [dict(query='node', method='bilinear')]
    r2['samples'] = [dict(query='interior', method='bicubic')]
    return [r0, r1, r2]


def replay_case(check, inp):
    return ring_witness() if (inp or {}).get('ring') else dict(note='synthetic files are regenerated from the seed: re-run ./check C17', input=inp)
