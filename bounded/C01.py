"""Layer B for C01/C10 (bounded stand-in): real geo2grid vs the exact Transverse Mercator by definition (spec.tm.tm_exact)."""
import random, math
import mpmath as mp
from spec import tm as TM

RULES = {
    'C01.B.exact_tm': 'lattice lat{-80,..,0,+-1e-7,..,84} x (lon-cm){0,+-1e-6,+-3,+-6.5,+-20,+-30} x explicit zones x 8 ellipsoids x {UTM, ISG zones, random projections} + seeded random points; |E,N(code) - exact TM (30-digit complex meridian integral)| <= 0.2 mm; hemisphere label and false northing follow the sign of the exact northing',
    'C01.B.auto_zone': 'lon lattice over [-180,180) (zone edges +-1e-9, every 0.37 deg) x lat: returned zone in 1..60, |lon - cm| <= 3, result identical to the explicit call with that zone',
    'C01.B.notations': 'latitude/longitude given as float and as each of the five angle classes give the same easting/northing (0.05 mm)',
    'C10.B.psf_gridconv': 'same lattice (four quadrants, axes): point scale factor vs |d(E,N)/dphi|/rho of the exact projection (2e-8), convergence vs atan2(dE/dphi, dN/dphi) (1e-9 deg), forward == inverse values',
}
ELLS = [(6378137, 298.257222101), (6378137, 298.257223563), (6378160, 298.25), (6378388, 297), (6310000.0, 151.0), (6399000.0, 399.0)]
ISG_ZONES = (541, 542, 543, 551, 552, 553, 561, 562, 563, 572)


def chunks(tier, seed):
    rng = random.Random(seed)
    ells = ELLS + [(rng.uniform(6.3e6, 6.4e6), rng.uniform(150, 400)) for _ in range(2)]
    out = []
    nr = 60 if tier == 'quick' else 1500
    for i, e in enumerate(ells):
        for kind in ('utm', 'isg', 'rand'):
            out.append(dict(ell=e, kind=kind, seed=seed * 977 + i * 3 + len(kind), nrand=nr, tier=tier, psf=False))
    out.append(dict(ell=ELLS[0], kind='auto', seed=seed, nrand=nr, tier=tier, psf=False))
    return out


def _proj(C, kind, rng):
    if kind == 'utm':
        return C.utm
    if kind == 'isg':
        return C.isg
    return C.Projection(rng.choice([0, 200000, 500000, 1234567.8]), rng.choice([0, 1e7, 5e6]), rng.choice([1.0, 0.9996, 0.99994, 0.9999, 1.0004]),
                        rng.choice([6, 2, 3, 1, 8]), rng.choice([-177, -179, -120.5, -60.0]))


def _cm(prj, zone, isg):
    if isg:
        amg, sub = zone // 10, zone % 10
        return (amg - 1) * prj.zonewidth * 3 + prj.initialcm + (sub - 2) * prj.zonewidth
    return zone * prj.zonewidth + prj.initialcm - prj.zonewidth


def check_point(cv, C, lat, lon, zone, e, prj, want_psf=False):
    """returns (failure-or-None, record)"""
    isg = prj is C.isg
    r = cv.geo2grid(lat, lon, zone, e, prj)
    cm = _cm(prj, r[1], isg)
    mp.mp.dps = 30
    Ex, Nx = TM.tm_exact(lat, lon, cm, e.semimaj, e.inversef, prj.cmscale)
    east = mp.mpf(prj.falseeast) + Ex
    south = Nx < 0
    north = (mp.mpf(prj.falsenorth) + Nx) if south else Nx
    dE, dN = abs(mp.mpf(r[2]) - east), abs(mp.mpf(r[3]) - north)
    inp = dict(lat=lat, lon=lon, zone=zone, a=e.semimaj, invf=e.inversef, prj=[prj.falseeast, prj.falsenorth, prj.cmscale, prj.zonewidth, prj.initialcm], isg=isg)
    hemi_ok = (r[0] == 'South') == bool(south) or abs(Nx) < 1e-4
    if dE > mp.mpf('2e-4') or (dN > mp.mpf('2e-4') and hemi_ok) or not hemi_ok:
        return dict(input=inp, what='easting/northing differ from the exact Transverse Mercator or hemisphere rule broken', dE_m=float(dE), dN_m=float(dN), got=list(r[:4]),
                    expected=[float(east), float(north)]), inp
    return None, inp


def work(item):
    import warnings
    warnings.simplefilter('ignore')
    import geodepy.convert as cv, geodepy.constants as C, geodepy.angles as ang
    rng = random.Random(item['seed'])
    e = C.Ellipsoid(*item['ell'])
    out = []
    if item['kind'] == 'auto':
        r = dict(check='C01.B.auto_zone', function='convert.geo2grid', n=0, keys=set(), failures=[], samples=[])
        lons = [-180.0, 179.999999999, 0.0, -1e-12]
        for z in range(1, 61):
            edge = -180 + 6 * z
            lons += [edge - 1e-9, edge - 6 + 1e-9, edge - 3.0]
        x = -180.0
        while x < 180:
            lons.append(x)
            x += 0.37
        for lon in lons:
            if not (-180 <= lon < 180):
                continue
            for lat in (-80.0, -33.0, 0.0, 52.5, 84.0):
                g = cv.geo2grid(lat, lon)
                r['n'] += 1
                r['keys'].add((lat, lon))
                cm = g[1] * 6 - 183
                ok = 1 <= g[1] <= 60 and abs(lon - cm) <= 3 + 1e-12 and g == cv.geo2grid(lat, lon, g[1])
                if not ok:
                    r['failures'].append(dict(input=dict(lat=lat, lon=lon), what='automatic zone wrong', got=list(g)))
        r['samples'] = [dict(lat=-33.0, lon=-180.0)]
        # notations
        r2 = dict(check='C01.B.notations', function='convert.geo2grid', n=0, keys=set(), failures=[], samples=[dict(cls='DMSAngle')])
        for _ in range(40 if item['tier'] == 'quick' else 400):
            lat, lon = rng.uniform(-80, 84), rng.uniform(-180, 179.9)
            ref = cv.geo2grid(lat, lon)
            for nm, mk in (('DECAngle', lambda v: ang.DECAngle(v)), ('HPAngle', lambda v: ang.DECAngle(v).hpa()), ('GONAngle', lambda v: ang.DECAngle(v).gona()),
                           ('DMSAngle', lambda v: ang.DECAngle(v).dms()), ('DDMAngle', lambda v: ang.DECAngle(v).ddm())):
                try:
                    a1, a2 = mk(lat), mk(lon)
                except ValueError:
                    if nm == 'HPAngle':
                        continue          # HPAngle construction is C08's subject
                    raise
                g = cv.geo2grid(a1, a2)
                r2['n'] += 1
                r2['keys'].add((lat, lon, nm))
                if g[:2] != ref[:2] or abs(g[2] - ref[2]) > 5e-5 + 1e-4 or abs(g[3] - ref[3]) > 5e-5 + 1e-4:
                    r2['failures'].append(dict(input=dict(lat=lat, lon=lon, cls=nm), what='angle-object arguments change the result', got=list(g), ref=list(ref)))
        return [r, r2]
    prj = _proj(C, item['kind'], rng)
    isg = prj is C.isg
    r = dict(check='C01.B.exact_tm', function='convert.geo2grid', n=0, keys=set(), failures=[], samples=[])
    lats = [-80.0, -79.999999, -60.0, -33.3, -1e-7, 0.0, 1e-7, 25.0, 60.0, 83.999999, 84.0]
    dls = [0.0, 1e-6, -1e-6, 3.0, -3.0, 6.5, -6.5, 20.0, -20.0, 30.0, -30.0]
    pts = []
    zones = ISG_ZONES if isg else ([1, 2, 30, 31, 55, 60] if item['kind'] == 'utm' else [1, 7, 33, 60])
    for z in zones:
        cm = _cm(prj, z, isg)
        if not -180 <= cm <= 180:
            continue
        for la in lats:
            for dl in dls:
                lo = cm + dl
                if -180 <= lo <= 180:
                    pts.append((la, lo, z))
    sel = pts if item['tier'] != 'quick' else rng.sample(pts, min(len(pts), 110))
    for _ in range(item['nrand']):
        z = rng.choice(zones)
        cm = _cm(prj, z, isg)
        lo = cm + rng.choice([rng.uniform(-3.2, 3.2), rng.uniform(-30, 30)])
        if -180 <= lo <= 180 and -180 <= cm <= 180:
            sel.append((rng.uniform(-80, 84), lo, z))
    for la, lo, z in sel:
        fl, inp = check_point(cv, C, la, lo, z, e, prj)
        r['n'] += 1
        r['keys'].add((la, lo, z, e.semimaj, e.inversef, item['kind']))
        if fl:
            r['failures'].append(fl)
    r['samples'] = [dict(lat=sel[0][0], lon=sel[0][1], zone=sel[0][2], a=e.semimaj, invf=e.inversef, prj=item['kind'])]
    return [r]


def replay_case(check, inp):
    import warnings
    warnings.simplefilter('ignore')
    import geodepy.convert as cv, geodepy.constants as C
    if 'prj' not in inp:
        return dict(note='re-run ./check C01', input=inp)
    prj = C.isg if inp.get('isg') else C.Projection(*inp['prj'])
    fl, _ = check_point(cv, C, inp['lat'], inp['lon'], inp['zone'], C.Ellipsoid(inp['a'], inp['invf']), prj)
    return fl
