"""Layer B for C19 (bounded stand-in)."""
import random, math

RULES = {
    'C19.B.joins_radiations': 'plane coordinates up to 1e7 m, bearings over the full circle incl. the four axes: radiations(joins) reproduces the second point within 1e-9 of the distance; bearing in [0,360); rotation/scale arguments rotate and scale the vector',
    'C19.B.va_conv': 'zenith angles in (0,180) and (180,360), slope 0.1 m..50 km, heights -5..5 m: hz^2 + (dh - hi + ht)^2 = slope^2 (relative 1e-12), heights shift only dh; 0, 180, 360 and negatives rejected',
    'C19.B.first_vel': 'atmospheres over the property box (t -20..45 incl. exactly 0, p 650..1100, humidity 0..100 incl. 0, CO2 300..600, wavelengths 0.4..1.6 um, distances 1 m..50 km): defined, proportional to distance (1e-12), CO2 form = (n_ref/n_g - 1) d, agreement of the closed-form and CO2-aware corrections within 1 ppm at 420 ppm for carriers 0.5..1.0 um',
    'C19.B.dispersion': 'group refractivity vs phase + sigma d(phase)/d(sigma) by central differences (relative 1e-6) over the box',
}


def chunks(tier, seed):
    return [dict(seed=seed * 17 + i, n=400 if tier == 'quick' else 6000) for i in range(8)]


def work(item):
    import geodepy.survey as sv, geodepy.convert as cv
    rng = random.Random(item['seed'])
    out = []
    r = dict(check='C19.B.joins_radiations', function='survey.joins', n=0, keys=set(), failures=[], samples=[])
    for k in range(item['n']):
        e1, n1 = rng.uniform(-1e7, 1e7), rng.uniform(-1e7, 1e7)
        d = 10 ** rng.uniform(-3, 7)
        b = rng.choice([0.0, 90.0, 180.0, 270.0, rng.uniform(0, 360)])
        e2, n2 = e1 + d * math.sin(math.radians(b)), n1 + d * math.cos(math.radians(b))
        if k % 7 == 0:
            e2 = e1          # due north / south
        if k % 11 == 0:
            n2 = n1
        if e1 == e2 and n1 == n2:
            continue
        dist, brg = sv.joins(e1, n1, e2, n2)
        back = sv.radiations(e1, n1, brg, dist)
        r['n'] += 1
        r['keys'].add((e1, n1, e2, n2))
        inp = dict(e1=e1, n1=n1, e2=e2, n2=n2)
        tol = 1e-9 * dist + 4e-9          # + float resolution of coordinates of magnitude 1e7
        if not (0 <= brg < 360) or abs(back[0] - e2) > tol or abs(back[1] - n2) > tol:
            r['failures'].append(dict(input=inp, what='radiations(joins) does not reproduce the point / bearing out of range', got=[dist, brg, back[0], back[1]]))
        rot, k_ = rng.uniform(-180, 180), rng.uniform(0.5, 1.5)
        rr = sv.radiations(e1, n1, brg, dist, rot, k_)
        ve, vn = e2 - e1, n2 - n1
        c, s = math.cos(math.radians(rot)), math.sin(math.radians(rot))
        we, wn = k_ * (ve * c + vn * s), k_ * (-ve * s + vn * c)       # clockwise rotation of a bearing
        if abs(rr[0] - e1 - we) > 1e-9 * dist * 2 + 4e-9 or abs(rr[1] - n1 - wn) > 1e-9 * dist * 2 + 4e-9:
            r['failures'].append(dict(input=dict(inp, rotation=rot, psf=k_), what='rotation/scale arguments do not rotate and scale the radiated vector', got=list(rr)))
    r['samples'] = [dict(e1=0.0, n1=0.0, e2=0.0, n2=-5.0)]
    out.append(r)
    r = dict(check='C19.B.va_conv', function='survey.va_conv', n=0, keys=set(), failures=[], samples=[dict(zenith=91.5, slope=100.0)])
    for k in range(item['n']):
        za = rng.choice([rng.uniform(1e-6, 180 - 1e-6), rng.uniform(180 + 1e-6, 360 - 1e-6)])
        sd = 10 ** rng.uniform(-1, math.log10(5e4))
        hi, ht = rng.uniform(-5, 5), rng.uniform(-5, 5)
        va, sdp, hz, dh = sv.va_conv(za, sd, hi, ht)
        va0, sd0, hz0, dh0 = sv.va_conv(za, sd)
        r['n'] += 1
        r['keys'].add((za, sd, hi, ht))
        if abs(hz * hz + (dh - hi + ht) ** 2 - sd * sd) > 1e-11 * sd * sd + 1e-12 or hz != hz0 or abs(dh - (dh0 + hi - ht)) > 1e-12 * max(1, abs(dh0)) + 1e-12:
            r['failures'].append(dict(input=dict(zenith=za, slope=sd, hi=hi, ht=ht), what='Pythagoras / height shift violated', got=[va, sdp, hz, dh]))
    for bad in (0, 180, 360, -10, 400.0, 0.0):
        try:
            sv.va_conv(bad, 100.0)
            r['failures'].append(dict(input=dict(zenith=bad), what='invalid zenith angle accepted'))
        except ValueError:
            pass
        r['n'] += 1
    out.append(r)
    r = dict(check='C19.B.first_vel', function='survey.first_vel_corrn', n=0, keys=set(), failures=[], samples=[dict(temp=0.0, humidity=0.0)])
    r2 = dict(check='C19.B.dispersion', function='survey.group_refractivity', n=0, keys=set(), failures=[], samples=[dict(wavelength=0.85)])
    for k in range(item['n']):
        t = rng.choice([0.0, rng.uniform(-20, 45)])
        p = rng.uniform(650, 1100)
        h = rng.choice([0.0, 100.0, rng.uniform(0, 100)])
        co2 = rng.uniform(300, 600)
        wl = rng.uniform(0.4, 1.6)
        d = 10 ** rng.uniform(0, math.log10(5e4))
        nref = 1.0002818
        C, D = sv.first_vel_params(wl, None, nref)
        inp = dict(temp=t, pressure=p, humidity=h, co2=co2, wavelength=wl, dist=d)
        r['n'] += 1
        r['keys'].add((t, p, h, co2, wl, d))
        try:
            a = sv.first_vel_corrn(d, (C, D), t, p, h)
            b = sv.first_vel_corrn(d, (C, D), t, p, h, CO2_ppm=co2, wavelength=wl)
            a2 = sv.first_vel_corrn(2 * d, (C, D), t, p, h)
            b2 = sv.first_vel_corrn(2 * d, (C, D), t, p, h, CO2_ppm=co2, wavelength=wl)
        except Exception as ex:
            r['failures'].append(dict(input=inp, what='first_vel_corrn raised for a physically valid atmosphere: %s: %s' % (type(ex).__name__, ex)))
            continue
        if abs(a2 - 2 * a) > 1e-12 * max(abs(a), 1e-9) * 4 + 1e-15 or abs(b2 - 2 * b) > 1e-9 * max(abs(b), 1e-9) + 1e-13:
            r['failures'].append(dict(input=inp, what='correction not proportional to the distance', got=[a, a2, b, b2]))
        e = sv.humidity2part_water_vapour_press(h, t)
        ng = 1 + sv.group_refractivity(wl, t, p, e, co2) / 1e8
        want = (nref / ng - 1) * d
        if abs(b - want) > 1e-9 * max(abs(want), 1e-6):
            r['failures'].append(dict(input=inp, what='CO2-aware correction is not (n_ref/n_g - 1) d', got=b, expected=want))
        if 0.5 <= wl <= 1.0:
            b420 = sv.first_vel_corrn(d, (C, D), t, p, h, CO2_ppm=420.0, wavelength=wl)
            if abs(a - b420) / d * 1e6 > 1.0:
                r['failures'].append(dict(input=inp, what='closed-form and CO2-aware corrections differ by more than 1 ppm at 420 ppm CO2', ppm=abs(a - b420) / d * 1e6))
        # dispersion by central differences
        s0 = 1 / wl
        hh = 1e-5
        f = lambda s_: sv.phase_refractivity(1 / s_, t, p, e, co2)
        num = f(s0) + s0 * (f(s0 + hh) - f(s0 - hh)) / (2 * hh)
        g = sv.group_refractivity(wl, t, p, e, co2)
        r2['n'] += 1
        r2['keys'].add((t, p, h, co2, wl))
        if abs(num - g) > 1e-6 * abs(g):
            r2['failures'].append(dict(input=inp, what='group refractivity differs from phase + sigma dn/dsigma', got=g, expected=num))
    out += [r, r2]
    return out


def replay_case(check, inp):
    import geodepy.survey as sv
    if check and check.startswith('C19.B.first_vel'):
        C, D = sv.first_vel_params(inp['wavelength'], None, 1.0002818)
        try:
            sv.first_vel_corrn(inp['dist'], (C, D), inp['temp'], inp['pressure'], inp['humidity'])
            sv.first_vel_corrn(inp['dist'], (C, D), inp['temp'], inp['pressure'], inp['humidity'], CO2_ppm=inp['co2'], wavelength=inp['wavelength'])
        except Exception as ex:
            return dict(input=inp, what='%s: %s' % (type(ex).__name__, ex))
        return None
    return dict(note='re-run ./check C19', input=inp)
