"""Layer B for C12 (bounded stand-in): random expression trees over angle objects vs float evaluation."""
import random, math

RULES = {
    'C12.B.trees': 'random expression trees of depth 1..6 over + - unary- abs *k k* /k %k (DMS, DDM; k a Python int or float, either sign; as right operand also a numpy int64 / float64 scalar) with leaves from all five classes (values in [-360,360] incl. 0, (-1,0) deg, minute/degree boundaries; intermediate magnitudes < 720): value equals the float evaluation within 1e-8 arc-seconds plus the 1e-9 arc-second resolution of each intermediate result carried through the later factors (a * 7 * 2 / -1.5 * 7 magnifies an intermediate half-unit 65 times), result has the class of its left operand; comparisons == != < > agree with the floats',
    'C12.B.compare': 'ordered pairs of angle objects of all 25 class pairs, values drawn so that exactly equal angles occur (whole degrees, half and quarter degrees, the same value in both classes) next to unequal ones: a == b, a != b, a < b, a > b each equal the same comparison of a.dec() and b.dec()',
    'C12.B.round': 'round(a, n) for DEC/GON/DMS/DDM objects, n in 0..6: changes the object by at most half a unit of the rounded place',
}
TOL = 1e-8 / 3600 + 4e-13
U = 1e-9 / 3600          # resolution of one operation's result (HP notation holds 1e-9 arc-seconds): a later factor k multiplies it


def chunks(tier, seed):
    return [dict(seed=seed * 71 + i, n=400 if tier == 'quick' else 8000) for i in range(8)]


def work(item):
    import geodepy.angles as A
    rng = random.Random(item['seed'])
    CLS = [A.DECAngle, A.HPAngle, A.GONAngle, A.DMSAngle, A.DDMAngle]

    def leafval():
        c = rng.randint(0, 5)
        d, m, s = rng.randint(0, 359), rng.randint(0, 59), rng.randint(0, 59)
        if c == 0:
            v = 0.0
        elif c == 1:
            v = -rng.uniform(0, 1)
        elif c == 2:
            v = d + m / 60 + s / 3600
        elif c == 3:
            v = float(d) if rng.random() < 0.5 else d + m / 60
        else:
            v = rng.uniform(-360, 360)
        return v * rng.choice([1, -1]) if c >= 2 else v

    def obj(cls, v):
        o = A.DECAngle(v)
        return {A.DECAngle: lambda: o, A.HPAngle: o.hpa, A.GONAngle: o.gona, A.DMSAngle: o.dms, A.DDMAngle: o.ddm}[cls]()

    def build(depth):
        """returns (object-evaluator, float value, description) or None if the magnitude bound is exceeded"""
        if depth == 0 or rng.random() < 0.2:
            v = leafval()
            cls = rng.choice(CLS)
            return (lambda: obj(cls, v)), v, '%s(%r)' % (cls.__name__, v), cls, U
        op = rng.choice(['add', 'sub', 'neg', 'abs', 'mul', 'rmul', 'div', 'mod'])
        a = build(depth - 1)
        if a is None:
            return None
        fa, va, da, ca, ea = a
        if op in ('add', 'sub'):
            b = build(depth - 1)
            if b is None:
                return None
            fb, vb, db, cb, eb_ = b
            v = va + vb if op == 'add' else va - vb
            f = (lambda: fa() + fb()) if op == 'add' else (lambda: fa() - fb())
            d = '(%s %s %s)' % (da, '+' if op == 'add' else '-', db)
            ea = ea + eb_ + U
        elif op == 'neg':
            v, f, d = -va, (lambda: -fa()), '-(%s)' % da
            ea = ea + U
        elif op == 'abs':
            v, f, d = abs(va), (lambda: abs(fa())), 'abs(%s)' % da
            ea = ea + U
        elif op in ('mul', 'rmul', 'div'):
            k = rng.choice([2, 3, 0.5, 1.5, 7, -2, -1.5])
            kk = rng.randint(0, 3)
            if kk == 1 and op != 'rmul':          # numpy scalars as RIGHT operands only: numpy answers `np.float64 * DECAngle` itself (DECAngle is a float)
                import numpy as np
                k = np.float64(k)
            elif kk == 2 and op != 'rmul' and float(k).is_integer():
                import numpy as np
                k = np.int64(int(k))
            ea = (ea / abs(float(k)) if op == 'div' else ea * abs(float(k))) + U
            if op == 'div':
                v, f, d = va / k, (lambda: fa() / k), '(%s / %r)' % (da, k)
            elif op == 'mul':
                v, f, d = va * k, (lambda: fa() * k), '(%s * %r)' % (da, k)
            else:
                v, f, d = k * va, (lambda: k * fa()), '(%r * %s)' % (k, da)
        else:
            if ca not in (A.DMSAngle, A.DDMAngle):
                return a
            k = rng.choice([360, 180, 90, 7.5, -360, -90])
            v, f, d = va % k, (lambda: fa() % k), '(%s %% %r)' % (da, k)
            ea = ea + U
        if abs(v) >= 720:
            return None
        return f, v, d, ca, ea
    r = dict(check='C12.B.trees', function='angles operators', n=0, keys=set(), failures=[], samples=[])
    for it in range(item['n']):
        t = build(rng.randint(1, 6))
        if t is None:
            continue
        f, v, d, cls, ebound = t
        r['n'] += 1
        r['keys'].add(d)
        try:
            o = f()
            got = o.dec()
            if abs(got - v) > TOL + ebound + 1e-12 * abs(v) or type(o) is not cls:
                r['failures'].append(dict(input=dict(expr=d, tol=TOL + ebound), what='expression value or class differs from float evaluation', got=got, expected=v, cls=type(o).__name__, want_cls=cls.__name__))
            u = build(rng.randint(0, 2))
            if u is not None:
                g, w, e, _, _e2 = u
                p = g()
                close = abs(v - w) < 1e-9 or abs(got - p.dec()) < 1e-9
                if not close and ((o == p) != (v == w) or (o != p) != (v != w) or (o < p) != (v < w) or (o > p) != (v > w)):
                    r['failures'].append(dict(input=dict(left=d, right=e), what='comparison disagrees with the decimal-degree values'))
        except Exception as ex:
            r['failures'].append(dict(input=dict(expr=d), what='exception: %s: %s' % (type(ex).__name__, str(ex)[:80])))
    r['samples'] = [dict(expr='(DMSAngle(12.5) + HPAngle(-0.25))')]
    r3 = dict(check='C12.B.compare', function='angles comparison operators', n=0, keys=set(), failures=[], samples=[dict(left='HPAngle(-180.0)', right='DECAngle(-180.0)')])
    exact = [0.0, 1.0, -1.0, 180.0, -180.0, 359.0, 12.5, -12.5, 45.25, -0.5, -0.25, 90.75, 270.0]
    for it in range(item['n']):
        ca, cb = CLS[it % 5], CLS[(it // 5) % 5]
        va = rng.choice(exact) if rng.random() < 0.6 else leafval()
        m_ = rng.random()
        vb = va if m_ < 0.5 else (rng.choice(exact) if m_ < 0.75 else leafval())
        try:
            a, b = obj(ca, va), obj(cb, vb)
            da, db = a.dec(), b.dec()
            r3['n'] += 1
            r3['keys'].add((ca.__name__, cb.__name__, va, vb))
            got = ((a == b), (a != b), (a < b), (a > b))
            want = ((da == db), (da != db), (da < db), (da > db))
            if tuple(bool(x) for x in got) != want:
                r3['failures'].append(dict(input=dict(left='%s(%r)' % (ca.__name__, va), right='%s(%r)' % (cb.__name__, vb)), what='(==, !=, <, >) disagree with the comparison of the decimal values',
                                           got=[bool(x) for x in got], expected=list(want), left_dec=da, right_dec=db))
        except Exception as ex:
            r3['failures'].append(dict(input=dict(left='%s(%r)' % (ca.__name__, va), right='%s(%r)' % (cb.__name__, vb)), what='exception: %s: %s' % (type(ex).__name__, str(ex)[:80])))
    r2 = dict(check='C12.B.round', function='angles __round__', n=0, keys=set(), failures=[], samples=[dict(cls='DMSAngle', n=2)])
    for it in range(item['n'] // 2):
        v = leafval()
        n = rng.randint(0, 6)
        for cls, unit in ((A.DECAngle, 1.0), (A.GONAngle, 0.9), (A.DMSAngle, 1 / 3600), (A.DDMAngle, 1 / 60)):
            o = obj(cls, v)
            r2['n'] += 1
            r2['keys'].add((v, n, cls.__name__))
            try:
                q = round(o, n)
                if abs(q.dec() - o.dec()) > 0.5 * 10 ** -n * unit + 1e-12 or type(q) is not cls:
                    r2['failures'].append(dict(input=dict(value=v, n=n, cls=cls.__name__), what='rounding changed the angle by more than half a unit of the rounded place', before=o.dec(), after=q.dec()))
            except Exception as ex:
                r2['failures'].append(dict(input=dict(value=v, n=n, cls=cls.__name__), what='exception: %s: %s' % (type(ex).__name__, ex)))
    return [r, r2, r3]


def replay_case(check, inp):
    """re-evaluate the recorded expression / pair on the current tree"""
    import geodepy.angles as A
    import numpy as np

    def mk(cls):
        def f(v):
            o = A.DECAngle(v)
            return {A.DECAngle: lambda: o, A.HPAngle: o.hpa, A.GONAngle: o.gona, A.DMSAngle: o.dms, A.DDMAngle: o.ddm}[cls]()
        return f
    objs = {c.__name__: mk(c) for c in (A.DECAngle, A.HPAngle, A.GONAngle, A.DMSAngle, A.DDMAngle)}
    objs['np'] = np
    flo = {k: (lambda v: v) for k in objs if k != 'np'}
    flo['np'] = np
    if 'expr' in inp:
        o = eval(inp['expr'], dict(objs, abs=abs))
        v = float(eval(inp['expr'], dict(flo, abs=abs)))
        if abs(o.dec() - v) > inp.get('tol', TOL) + 1e-12 * abs(v):
            return dict(input=inp, observed=o.dec(), expected=v)
        return None
    if 'left' in inp and 'right' in inp and check == 'C12.B.compare':
        a, b = eval(inp['left'], dict(objs)), eval(inp['right'], dict(objs))
        got = [bool(a == b), bool(a != b), bool(a < b), bool(a > b)]
        want = [a.dec() == b.dec(), a.dec() != b.dec(), a.dec() < b.dec(), a.dec() > b.dec()]
        return None if got == want else dict(input=inp, observed=got, expected=want)
    return dict(note='this record cannot be re-evaluated on its own: re-run ./check C12', input=inp)
