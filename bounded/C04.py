"""Layer B for C04/C05 (bounded stand-in): Vincenty direct/inverse vs the exact geodesic by quadrature."""
import random, math
import mpmath as mp
from spec.geodesic import direct_exact, ground_offset_m

RULES = {
    'C04.B.direct_exact': 'lat1{+-90,0,...} x lon1 x azimuth{cardinals,...} x distance{0, 1 mm..2e7 m log-uniform and uniform} incl. equatorial, meridional, pole-crossing lines x 4 shipped + Earth-like random ellipsoids (1/f in [280,320]): end point within 1 mm of the exact geodesic (longitude mod 360), reverse azimuth within 1e-8 deg when the end point is > 1 deg from a pole',
    'C04.B.angle_objects': 'arguments given as the five angle classes give the result of their decimal values (position 0.01 mm, azimuth 1e-8 deg)',
}
ELLS = [(6378137, 298.257222101), (6378137, 298.257223563), (6378160, 298.25), (6378388, 297)]


def chunks(tier, seed):
    rng = random.Random(seed)
    ells = ELLS + [(rng.uniform(6.3e6, 6.4e6), rng.uniform(280, 320)) for _ in range(4)]
    n = 120 if tier == 'quick' else 3000
    return [dict(ell=e, seed=seed * 389 + i * 16 + k, n=n // 2, first=(k == 0)) for i, e in enumerate(ells) for k in range(2)]


def check_direct(gd, C, lat1, lon1, az, s, a, invf):
    e = C.Ellipsoid(a, invf)
    v = gd.vincdir(lat1, lon1, az, s, e)
    x = direct_exact(lat1, lon1, az, s, a, invf)
    d = ground_offset_m(v[0], v[1], x[0], x[1], a, invf)
    inp = dict(lat1=lat1, lon1=lon1, az=az, s=s, a=a, invf=invf)
    if d > mp.mpf('1e-3'):
        return dict(input=inp, what='end point further than 1 mm from the exact geodesic', distance_m=float(d), got=list(v), exact=[float(t) for t in x])
    if abs(x[0]) < 89:
        da = abs((mp.mpf(v[2]) - (x[2] + 180) + 540) % 360 - 180)
        if da > mp.mpf('1e-8') + mp.mpf('6e-10'):          # + half a unit of the 9-decimal rounding of the result
            return dict(input=inp, what='reverse azimuth differs from the exact geodesic', diff_deg=float(da), got=v[2], exact=float((x[2] + 180) % 360))
    return None


def work(item):
    import geodepy.geodesy as gd, geodepy.constants as C, geodepy.angles as ang
    rng = random.Random(item['seed'])
    a, invf = item['ell']
    pts = []
    if item['first']:
        for la in (90.0, -90.0, 0.0, 45.0, -89.5):
            for az in (0.0, 90.0, 180.0, 270.0, 360.0, 33.0):
                for s in (0.0, 0.001, 1000.0, 1e6, 1.0001e7, 2e7):
                    pts.append((la, rng.choice([0.0, 180.0, -180.0, 144.9]), az, s))
    for _ in range(item['n']):
        s = rng.choice([10 ** rng.uniform(-3, math.log10(2e7)), rng.uniform(0, 2e7)])
        pts.append((rng.choice([rng.uniform(-90, 90), 0.0]), rng.uniform(-180, 180), rng.choice([rng.uniform(0, 360), rng.choice([0.0, 90.0, 180.0, 270.0])]), s))
    r = dict(check='C04.B.direct_exact', function='geodesy.vincdir', n=0, keys=set(), failures=[], samples=[])
    for la, lo, az, s in pts:
        fl = check_direct(gd, C, la, lo, az, s, a, invf)
        r['n'] += 1
        r['keys'].add((la, lo, az, s, a, invf))
        if fl:
            r['failures'].append(fl)
    r['samples'] = [dict(lat1=pts[0][0], lon1=pts[0][1], az=pts[0][2], s=pts[0][3], a=a, invf=invf)]
    r2 = dict(check='C04.B.angle_objects', function='geodesy.vincdir', n=0, keys=set(), failures=[], samples=[dict(cls='DDMAngle')])
    e = C.Ellipsoid(a, invf)
    for _ in range(12):
        la, lo, az, s = rng.uniform(-89, 89), rng.uniform(-180, 180), rng.uniform(0, 360), rng.uniform(1, 2e6)
        ref = gd.vincdir(la, lo, az, s, e)
        for nm, mk in (('DECAngle', lambda v: ang.DECAngle(v)), ('HPAngle', lambda v: ang.DECAngle(v).hpa()), ('GONAngle', lambda v: ang.DECAngle(v).gona()),
                       ('DMSAngle', lambda v: ang.DECAngle(v).dms()), ('DDMAngle', lambda v: ang.DECAngle(v).ddm())):
            try:
                args = (mk(la), mk(lo), mk(az))
            except ValueError:
                if nm == 'HPAngle':
                    continue
                raise
            got = gd.vincdir(args[0], args[1], args[2], s, e)
            r2['n'] += 1
            r2['keys'].add((la, lo, az, nm))
            far = abs(ref[0]) < 89
            if ground_offset_m(got[0], got[1], ref[0], ref[1], a, invf) > 1e-5 or (far and abs((got[2] - ref[2] + 540) % 360 - 180) > 1e-8):
                r2['failures'].append(dict(input=dict(lat1=la, lon1=lo, az=az, s=s, cls=nm), what='angle-object arguments change the result', got=list(got), ref=list(ref)))
    return [r, r2]


def replay_case(check, inp):
    import geodepy.geodesy as gd, geodepy.constants as C
    if 'az' in inp and 'a' in inp:
        return check_direct(gd, C, inp['lat1'], inp['lon1'], inp['az'], inp['s'], inp['a'], inp['invf'])
    return dict(note='re-run ./check C04', input=inp)
