"""Layer B for C02 (bounded stand-in): round trips of the real geo2grid / grid2geo, hemisphere mirror, stand-alone converter."""
import random, math, os, importlib.util
from bounded.C01 import ELLS, ISG_ZONES, _proj, _cm

RULES = {
    'C02.B.geo_grid_geo': 'lattice lat{-80+1e-6..84-1e-6, 0, +-1e-7} x (lon-cm){0,+-1e-6,+-3,+-20,+-30} x zones x 8 ellipsoids x {UTM, ISG, random projections} + random: geo -> grid -> geo within 2e-9 deg (positions within 1e-6 deg of the equator compared modulo the N=0 north / N=FN south identification)',
    'C02.B.grid_geo_grid': 'direct grid lattice (zones, both hemispheres, eastings -2.8e6..3.8e6 step, northings 0..1e7) restricted to |lon-cm| <= 30 deg, lon in [-180,180], lat 1e-6 inside the band: grid -> geo -> grid within 0.2 mm; the same position for the hemisphere word in capitalised, lower and upper case',
    'C02.B.mirror': 'northing N in the north vs FN-N in the south: latitudes exactly opposite, longitudes identical',
    'C02.B.standalone': 'Standalone/mga2gda.py grid2geo vs the library on southern-hemisphere UTM (GRS80) grid lattice + random: 1e-10 deg',
}


def chunks(tier, seed):
    rng = random.Random(seed)
    ells = ELLS + [(rng.uniform(6.3e6, 6.4e6), rng.uniform(150, 400)) for _ in range(2)]
    out = []
    for i, e in enumerate(ells):
        for kind in ('utm', 'isg', 'rand'):
            out.append(dict(ell=e, kind=kind, seed=seed * 613 + i * 3 + len(kind), n=250 if tier == 'quick' else 5000, what='rt'))
    out.append(dict(ell=ELLS[0], kind='utm', seed=seed, n=1500 if tier == 'quick' else 30000, what='standalone'))
    return out


def rt_geo(cv, C, lat, lon, zone, e, prj):
    g = cv.geo2grid(lat, lon, zone, e, prj)
    b = cv.grid2geo(g[1], g[2], g[3], g[0], e, prj)
    dlat, dlon = abs(b[0] - lat), abs(b[1] - lon)
    ground = dlon * math.pi / 180 * math.cos(math.radians(lat)) * e.semimaj
    inp = dict(lat=lat, lon=lon, zone=zone, a=e.semimaj, invf=e.inversef, prj=[prj.falseeast, prj.falsenorth, prj.cmscale, prj.zonewidth, prj.initialcm],
               isg=prj is C.isg, dlat_deg=dlat, dlon_deg=dlon, dlon_ground_m=ground)
    if abs(lat) < 1e-6:      # N = 0 north and N = FN south are the same point
        dlat = min(dlat, abs(b[0] + lat))
    if dlat > 2e-9 or dlon > 2e-9:
        return dict(input=inp, what='geographic -> grid -> geographic does not return within 2e-9 deg', back=[b[0], b[1]], grid=list(g[:4])), inp
    return None, inp


def work(item):
    import warnings
    warnings.simplefilter('ignore')
    import geodepy.convert as cv, geodepy.constants as C
    rng = random.Random(item['seed'])
    e = C.Ellipsoid(*item['ell'])
    if item['what'] == 'standalone':
        repo = os.environ.get('VERIF_REPO', '/repo')
        spec = importlib.util.spec_from_file_location('mga2gda_sa', os.path.join(repo, 'Standalone', 'mga2gda.py'))
        sa = importlib.util.module_from_spec(spec)
        spec.loader.exec_module(sa)
        r = dict(check='C02.B.standalone', function='Standalone/mga2gda.py:grid2geo', n=0, keys=set(), failures=[], samples=[])
        pts = [(z, E_, N_) for z in (1, 30, 49, 55, 56, 60) for E_ in (100000.0, 500000.0, 500000.0001, 899999.9, 250000.0, -1500000.0, 2500000.0)
               for N_ in (1116915.0, 10000000.0, 9999999.9, 5000000.0, 1200000.5, 8000000.0)]
        for _ in range(item['n']):
            pts.append((rng.randint(1, 60), rng.uniform(-1.5e6, 2.5e6) if rng.random() < 0.3 else rng.uniform(1e5, 9e5), rng.uniform(1.2e6, 1e7)))
        for z, E_, N_ in pts:
            lib = cv.grid2geo(z, E_, N_, 'south')
            got = sa.grid2geo(z, E_, N_)
            r['n'] += 1
            r['keys'].add((z, E_, N_))
            if abs(got[0] - lib[0]) > 1e-10 or abs(got[1] - lib[1]) > 1e-10:
                r['failures'].append(dict(input=dict(zone=z, east=E_, north=N_), what='stand-alone converter differs from the library', standalone=list(got), library=list(lib[:2])))
        r['samples'] = [dict(zone=55, east=500000.0, north=5000000.0)]
        return [r]
    prj = _proj(C, item['kind'], rng)
    isg = prj is C.isg
    zones = ISG_ZONES if isg else ([1, 2, 30, 31, 55, 60] if item['kind'] == 'utm' else [1, 7, 33, 60])
    r1 = dict(check='C02.B.geo_grid_geo', function='convert.grid2geo', n=0, keys=set(), failures=[], samples=[])
    pts = []
    for z in zones:
        cm = _cm(prj, z, isg)
        if not -180 <= cm <= 180:
            continue
        for la in (-79.999999, -60.0, -33.3, -1e-7, 0.0, 1e-7, 25.0, 60.0, 76.5, 83.999999):
            for dl in (0.0, 1e-6, -1e-6, 3.0, -3.0, 20.0, -20.0, 30.0, -30.0):
                if -180 <= cm + dl <= 180:
                    pts.append((la, cm + dl, z))
    pts = rng.sample(pts, min(len(pts), item['n']))
    for _ in range(item['n']):
        z = rng.choice(zones)
        cm = _cm(prj, z, isg)
        lo = cm + rng.choice([rng.uniform(-3.2, 3.2), rng.uniform(-30, 30)])
        if -180 <= lo <= 180 and -180 <= cm <= 180:
            pts.append((rng.uniform(-79.999999, 83.999999), lo, z))
    for la, lo, z in pts:
        try:
            fl, inp = rt_geo(cv, C, la, lo, z, e, prj)
        except ValueError:
            continue            # easting outside the accepted range at 30 deg off the central meridian: outside the quantifier
        r1['n'] += 1
        r1['keys'].add((la, lo, z, item['kind'], e.semimaj))
        if fl:
            r1['failures'].append(fl)
    r1['samples'] = [dict(lat=pts[0][0], lon=pts[0][1], zone=pts[0][2], prj=item['kind'])]
    # direct grid lattice
    r2 = dict(check='C02.B.grid_geo_grid', function='convert.grid2geo', n=0, keys=set(), failures=[], samples=[])
    r3 = dict(check='C02.B.mirror', function='convert.grid2geo', n=0, keys=set(), failures=[], samples=[])
    FN, FE = prj.falsenorth, prj.falseeast
    grid = []
    for z in zones:
        for E_ in (FE, FE + 0.0001, FE - 200000.0, FE + 399999.9, FE - 1.9e6, FE + 2.6e6, -2830000.0, 3830000.0):
            for N_ in (0.0, 0.0001, 1234567.8912, FN / 2, 9000000.0, 9999999.9999, 1e7):
                grid.append((z, E_, N_))
    for _ in range(item['n']):
        grid.append((rng.choice(zones), FE + rng.choice([rng.uniform(-4e5, 4e5), rng.uniform(-3.3e6, 3.3e6)]), rng.uniform(0, 1e7)))
    for z, E_, N_ in grid:
        if not (-2830000 <= E_ <= 3830000 and 0 <= N_ <= 1e7):
            continue
        for hemi in ('North', 'South'):
            try:
                la, lo, _, _ = cv.grid2geo(z, E_, N_, hemi, e, prj)
            except ValueError:
                continue
            cm = _cm(prj, z, isg)
            if not (-80 + 1e-6 <= la <= 84 - 1e-6 and -180 <= lo <= 180 and abs(lo - cm) <= 30):
                continue
            if (hemi == 'North' and la < 0) or (hemi == 'South' and la > 0):
                continue        # northing on the far side of the equator for that hemisphere label: not a valid grid coordinate
            # the hemisphere word is accepted in any letter case (and is what CoordTM.geo passes in lower case): same position for every accepted spelling
            for word in (hemi.lower(), hemi.upper()):
                alt = cv.grid2geo(z, E_, N_, word, e, prj)
                if alt[0] != la or alt[1] != lo:
                    r2['failures'].append(dict(input=dict(zone=z, east=E_, north=N_, hemisphere=word, a=e.semimaj, invf=e.inversef, prj=[FE, FN, prj.cmscale, prj.zonewidth, prj.initialcm], isg=isg),
                                               what='position depends on the letter case of the hemisphere word', spelled=word, got=list(alt[:2]), with_capitalised_word=[la, lo]))
                    break
            g = cv.geo2grid(la, lo, z, e, prj)
            r2['n'] += 1
            r2['keys'].add((z, E_, N_, hemi, item['kind'], e.semimaj))
            dE, dN = abs(g[2] - E_), abs(g[3] - N_)
            same_h = g[0].lower() == hemi.lower()
            if not same_h and abs(la) < 1e-6:
                dN = min(dN, abs(g[3] - (N_ - FN)), abs(g[3] - (N_ + FN)))
                same_h = True
            if dE > 2e-4 or dN > 2e-4 or not same_h:
                r2['failures'].append(dict(input=dict(zone=z, east=E_, north=N_, hemisphere=hemi, a=e.semimaj, invf=e.inversef, prj=[FE, FN, prj.cmscale, prj.zonewidth, prj.initialcm], isg=isg),
                                           what='grid -> geographic -> grid does not return within 0.2 mm', back=list(g[:4]), latlon=[la, lo]))
        # mirror
        if 0 <= FN - N_ <= 1e7:
            try:
                n_ = cv.grid2geo(z, E_, N_, 'North', e, prj)
                s_ = cv.grid2geo(z, E_, FN - N_, 'South', e, prj)
            except ValueError:
                continue
            r3['n'] += 1
            r3['keys'].add((z, E_, N_, item['kind'], e.semimaj))
            # FN - N is rounded in floats: allow the corresponding 1e-9 m (1e-14 deg)
            if abs(n_[0] + s_[0]) > 2e-11 or abs(n_[1] - s_[1]) > 2e-11:
                r3['failures'].append(dict(input=dict(zone=z, east=E_, north=N_, a=e.semimaj, invf=e.inversef, isg=isg), what='mirror-image grid coordinates do not give mirrored positions', north=list(n_), south=list(s_)))
    r2['samples'] = [dict(zone=grid[0][0], east=grid[0][1], north=grid[0][2], prj=item['kind'])]
    r3['samples'] = r2['samples']
    return [r1, r2, r3]


def replay_case(check, inp):
    import warnings
    warnings.simplefilter('ignore')
    import geodepy.convert as cv, geodepy.constants as C
    if 'lat' in inp and 'prj' in inp:
        prj = C.isg if inp.get('isg') else C.Projection(*inp['prj'])
        fl, _ = rt_geo(cv, C, inp['lat'], inp['lon'], inp['zone'], C.Ellipsoid(inp['a'], inp['invf']), prj)
        return fl
    return dict(note='re-run ./check C02', input=inp)
