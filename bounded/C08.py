"""Layer B for C08 - this is where the property is decided for floats: the property itself names the lattice.
Exhaustive 0d00'00" .. 359d59'59" (1 296 000 values, both signs) through every function and object that takes or produces HP,
DMS, DDM; all ordered pairs / length-3 chains of the nine notations on a sub-lattice; boundary and random values."""
import random, math

RULES = {
    'C08.B.lattice': 'EXHAUSTIVE whole arc-second lattice 0..359d59m59s, both signs (2 592 000 values): hp2dec, dec2hp, hp2dms, hp2ddm, HPAngle (accepted; .dec .dms .ddm .gon), DMSAngle(d,m,s) (.dec .hp .hpa .ddm), dec2dms, dec2ddm, DECAngle(.hpa .dms .ddm) - every result denotes the same angle within 1e-8 arc-seconds with the same sign, every HP value produced is valid HP',
    'C08.B.vectorised': 'hp2dec_v / dec2hp_v on the whole lattice as arrays (1e-8 arc-seconds); the array handed over (also a column view of a table) holds the same values afterwards and converts to the same result a second time',
    'C08.B.pairs_chains': 'all ordered pairs of the nine notations and random length-3 chains over the conversion graph (direct functions and object methods) on a 1/60 sub-lattice, fractional seconds down to 1e-9", values within 1e-9" of minute/degree boundaries and random reals in [-720, 720], incl. angles in (-1, 0) deg: same angle within 1e-8", same sign',
    'C08.B.boundaries': 'every whole degree 0..720 and the minute boundaries d 00\' / d 01\' / d 30\' / d 59\' (quick: every degree; thorough: every minute of every 7th degree as well), both signs, approached from both sides at log-spaced distances 1e-1 .. 1e-10 arc-seconds (and 3e-10, 4.9e-10, 5e-10, 5.1e-10, 9e-10, the adjacent floats): decimal degrees -> each of the other eight notations denotes the same angle within 1e-8", every HP value produced is valid',
    'C08.B.validity': 'every HP value with up to 13 decimals and minutes/seconds < 60 is accepted by hp2dec, hp2dms, hp2ddm, HPAngle; HP values with a minutes or seconds field >= 60 are rejected with ValueError by hp2dec and HPAngle',
}
EXHAUSTIVE = {'C08.B.lattice', 'C08.B.vectorised'}
TOL = 1e-8 / 3600 + 2e-13          # 1e-8" in degrees + float resolution of a 720 deg angle


def chunks(tier, seed):
    out = [dict(kind='lattice', d0=d, d1=d + 6) for d in range(0, 360, 6)]
    out += [dict(kind='chains', seed=seed * 67 + i, n=1500 if tier == 'quick' else 30000) for i in range(8)]
    out.append(dict(kind='validity', seed=seed))
    out += [dict(kind='boundary', d0=d, d1=min(d + 91, 721), thorough=(tier != 'quick')) for d in range(0, 721, 91)]
    return out


def _digits(h):
    """the decimal digits an HP float denotes: HP notation has 1e-9 arc-second resolution, i.e. 13 decimals (12 from 512 degrees
    up, where a double no longer resolves the 13th); the float is read as the nearest such decimal - done with exact Decimal
    arithmetic on the float's value, independent of the library's own formatting"""
    from decimal import Decimal, ROUND_HALF_EVEN
    d = Decimal(abs(float(h)))
    q = Decimal(1).scaleb(-13 if d < 512 else -12)
    s = format(d.quantize(q, rounding=ROUND_HALF_EVEN), 'f')
    ip, _, frac = s.partition('.')
    return ip, (frac + '0' * 20)[:20]


def valid_hp(h):
    ip, frac = _digits(h)
    return int(frac[0]) <= 5 and int(frac[2]) <= 5


def hp_den(h):
    """degrees denoted by a valid HP float"""
    ip, frac = _digits(h)
    v = int(ip) + int(frac[:2]) / 60 + float(frac[2:4] + '.' + frac[4:]) / 3600
    return v if h >= 0 else -v


def work(item):
    import geodepy.angles as A
    if item['kind'] == 'lattice':
        import numpy as np
        r = dict(check='C08.B.lattice', function='angles.*', n=0, keys=set(), failures=[], samples=[])
        rv = dict(check='C08.B.vectorised', function='angles.hp2dec_v', n=0, keys=set(), failures=[], samples=[dict(n='one degree block')])
        nfail = {}

        def bad(what, **inp):
            nfail[what] = nfail.get(what, 0) + 1
            if nfail[what] <= 3:
                r['failures'].append(dict(input=inp, what=what))
            elif nfail[what] == 4:
                r['failures'].append(dict(input=dict(inp, more=True), what=what + ' (further cases counted, not listed)'))
        hps, decs = [], []
        for d in range(item['d0'], item['d1']):
            for m in range(60):
                for s in range(60):
                    hpv = float('%d.%02d%02d' % (d, m, s))
                    decv = d + m / 60 + s / 3600
                    for sign in (1, -1):
                        if sign == -1 and d == m == s == 0:
                            continue
                        hp, dec = sign * hpv, sign * decv
                        r['n'] += 1
                        hps.append(hp)
                        decs.append(dec)
                        # functions
                        try:
                            if abs(A.hp2dec(hp) - dec) > TOL:
                                bad('hp2dec changes the angle', hp=hp)
                            h2 = A.dec2hp(dec)
                            if not valid_hp(h2) or abs(hp_den(h2) - dec) > TOL:
                                bad('dec2hp produces an invalid HP value or changes the angle', dec=dec, got=h2)
                            q = A.hp2dms(hp)
                            if abs(q.dec() - dec) > TOL or q.positive != (hp >= 0) and dec != 0:
                                bad('hp2dms changes the angle', hp=hp, got=str(q))
                            q = A.hp2ddm(hp)
                            if abs(q.dec() - dec) > TOL:
                                bad('hp2ddm changes the angle', hp=hp, got=str(q))
                            try:
                                o = A.HPAngle(hp)
                                if abs(o.dec() - dec) > TOL or abs(o.dms().dec() - dec) > TOL or abs(o.ddm().dec() - dec) > TOL or abs(o.gon() * 0.9 - dec) > TOL:
                                    bad('HPAngle methods change the angle', hp=hp)
                            except ValueError:
                                bad('HPAngle rejects a valid HP value', hp=hp)
                            o = A.DMSAngle(d, m, s, positive=(sign == 1))
                            hh = o.hp()
                            if abs(o.dec() - dec) > TOL or not valid_hp(hh) or abs(hp_den(hh) - dec) > TOL or abs(o.ddm().dec() - dec) > TOL:
                                bad('DMSAngle methods change the angle / produce invalid HP', d=d, m=m, s=s, sign=sign, hp=hh)
                            q = A.dec2dms(dec)
                            hh = q.hp()
                            if abs(q.dec() - dec) > TOL or abs(A.dec2ddm(dec).dec() - dec) > TOL:
                                bad('dec2dms / dec2ddm change the angle', dec=dec)
                            o = A.DECAngle(dec)
                            if abs(o.dms().dec() - dec) > TOL or abs(o.ddm().dec() - dec) > TOL or abs(o.hpa().dec() - dec) > TOL:
                                bad('DECAngle methods change the angle', dec=dec)
                        except ValueError as ex:
                            bad('ValueError on a valid value: %s' % str(ex)[:60], hp=hp, dec=dec)
        r['keys'] = set((item['d0'], i) for i in range(r['n']))
        r['samples'] = [dict(hp=hps[0], dec=decs[0]), dict(hp=hps[-1], dec=decs[-1])]
        r['failures'] = r['failures'][:40]
        for w, c in nfail.items():
            if c > 4:
                r['failures'].append(dict(input=dict(count=c, block=[item['d0'], item['d1']], summary=True), what=w + ' (total in this block)'))
        ha, da = np.array(hps), np.array(decs)
        rv['n'] = 2 * len(hps)
        rv['keys'] = set((item['d0'], i) for i in range(rv['n']))
        hb, db = ha.copy(), da.copy()
        first_h, first_d = A.hp2dec_v(hb), A.dec2hp_v(db)
        e1 = np.abs(first_h - da)
        e2 = np.abs(np.array([hp_den(float(v)) for v in first_d]) - da)
        # the values the caller holds must still denote the same angles afterwards (a chain may convert them again), also through a column view
        if not np.array_equal(hb, ha) or not np.array_equal(A.hp2dec_v(hb), first_h):
            i = int(np.nonzero(hb != ha)[0][0]) if not np.array_equal(hb, ha) else 0
            rv['failures'].append(dict(input=dict(hp=float(ha[i]), block=[item['d0'], item['d1']]), what='hp2dec_v changed the HP array it was given (a second conversion of the same array gives a different angle)', held_after=float(hb[i])))
        if not np.array_equal(db, da) or not np.array_equal(A.dec2hp_v(db), first_d):
            i = int(np.nonzero(db != da)[0][0]) if not np.array_equal(db, da) else 0
            rv['failures'].append(dict(input=dict(dec=float(da[i]), block=[item['d0'], item['d1']]), what='dec2hp_v changed the array it was given', held_after=float(db[i])))
        tab = np.column_stack([ha[:200], da[:200]])
        col0 = tab[:, 0].copy()
        A.hp2dec_v(tab[:, 0])
        if not np.array_equal(tab[:, 0], col0):
            rv['failures'].append(dict(input=dict(hp=float(col0[int(np.nonzero(tab[:, 0] != col0)[0][0])]), view=True), what='hp2dec_v changed the table column (view) it was given'))
        for i in np.nonzero(e1 > TOL)[0][:3]:
            rv['failures'].append(dict(input=dict(hp=float(ha[i])), what='hp2dec_v changes the angle', got=float(A.hp2dec_v(np.array([ha[i]]))[0])))
        if int((e1 > TOL).sum()) > 3:
            rv['failures'].append(dict(input=dict(count=int((e1 > TOL).sum()), block=[item['d0'], item['d1']], summary=True), what='hp2dec_v changes the angle (total in this block)'))
        for i in np.nonzero(e2 > TOL)[0][:3]:
            rv['failures'].append(dict(input=dict(dec=float(da[i])), what='dec2hp_v changes the angle'))
        return [r, rv]
    if item['kind'] == 'validity':
        r = dict(check='C08.B.validity', function='angles.hp2dec', n=0, keys=set(), failures=[], samples=[dict(hp=12.6, expect='rejected')])
        rng = random.Random(item['seed'])
        for k in range(4000):
            d, m, s = rng.randint(0, 719), rng.randint(0, 59), rng.randint(0, 59)
            fr = rng.choice([0, rng.randint(0, 10 ** 9 - 1)])
            hp = float('%d.%02d%02d%09d' % (d, m, s, fr)) * rng.choice([1, -1])
            r['n'] += 1
            r['keys'].add(hp)
            for nm, f in (('hp2dec', A.hp2dec), ('hp2dms', A.hp2dms), ('hp2ddm', A.hp2ddm), ('HPAngle', A.HPAngle)):
                try:
                    f(hp)
                except ValueError:
                    r['failures'].append(dict(input=dict(hp=hp, function=nm), what='%s rejects a valid HP value' % nm))
            bm = float('%d.%02d%02d' % (d, rng.randint(60, 99), s))
            bs = float('%d.%02d%02d' % (d, m, rng.randint(60, 99)))
            for v in (bm, bs, -bm, -bs):
                if valid_hp(v):
                    continue          # e.g. 12.6000 == 12.60: the trailing digits make it ambiguous only in the generator
                for nm, f in (('hp2dec', A.hp2dec), ('HPAngle', A.HPAngle)):
                    r['n'] += 1
                    try:
                        f(v)
                        r['failures'].append(dict(input=dict(hp=v, function=nm), what='%s accepts an HP value with a minutes/seconds field >= 60' % nm))
                    except ValueError:
                        pass
        return [r]
    # ---------------------------------------------------------------- pairs and chains over the conversion graph
    rng = random.Random(item.get('seed', 0))
    r = dict(check='C08.B.pairs_chains', function='angles.*', n=0, keys=set(), failures=[], samples=[])
    import math as M
    KINDS = ('rad', 'dec', 'hp', 'gon', 'DEC', 'HP', 'GON', 'DMS', 'DDM')

    def den(k, v):
        if k == 'rad':
            return M.degrees(v)
        if k == 'dec':
            return v
        if k == 'hp':
            return hp_den(v)
        if k == 'gon':
            return v * 0.9
        if k == 'HP':
            return hp_den(v.hp_angle)
        if k == 'GON':
            return v.gon_angle * 0.9 if hasattr(v, 'gon_angle') else v.dec()
        if k == 'DEC':
            return v.dec_angle
        if k == 'DMS':
            return (1 if v.positive else -1) * (v.degree + v.minute / 60 + v.second / 3600)
        return (1 if v.positive else -1) * (v.degree + v.minute / 60)
    OBJ = dict(DEC='deca', HP='hpa', GON='gona', DMS='dms', DDM='ddm', dec='dec', hp='hp', gon='gon', rad='rad')
    FN = {('dec', 'hp'): A.dec2hp, ('dec', 'HP'): A.dec2hpa, ('dec', 'gon'): A.dec2gon, ('dec', 'GON'): A.dec2gona, ('dec', 'DMS'): A.dec2dms, ('dec', 'DDM'): A.dec2ddm,
          ('dec', 'DEC'): A.DECAngle, ('dec', 'rad'): M.radians, ('rad', 'dec'): M.degrees,
          ('hp', 'dec'): A.hp2dec, ('hp', 'DEC'): A.hp2deca, ('hp', 'gon'): A.hp2gon, ('hp', 'GON'): A.hp2gona, ('hp', 'DMS'): A.hp2dms, ('hp', 'DDM'): A.hp2ddm, ('hp', 'rad'): A.hp2rad,
          ('hp', 'HP'): A.HPAngle, ('gon', 'dec'): A.gon2dec, ('gon', 'DEC'): A.gon2deca, ('gon', 'hp'): A.gon2hp, ('gon', 'HP'): A.gon2hpa, ('gon', 'DMS'): A.gon2dms, ('gon', 'DDM'): A.gon2ddm,
          ('gon', 'rad'): A.gon2rad, ('gon', 'GON'): A.GONAngle}

    def convert(k, v, k2):
        if k in ('DEC', 'HP', 'GON', 'DMS', 'DDM'):
            if k == k2:
                return v
            return getattr(v, OBJ[k2])()
        if (k, k2) in FN:
            return FN[(k, k2)](v)
        if k == k2:
            return v
        return None          # no direct conversion (rad -> anything but dec): go through dec

    def start_values():
        d, m, s = rng.randint(0, 359), rng.randint(0, 59), rng.randint(0, 59)
        base = d + m / 60 + s / 3600
        choice = rng.randint(0, 5)
        if choice == 0:
            v = base
        elif choice == 1:
            v = base + rng.uniform(0, 1) / 3600
        elif choice == 2:
            v = d + m / 60 + rng.choice([-1e-9, 1e-9, 0.0]) / 3600
        elif choice == 3:
            v = rng.uniform(-720, 720)
        elif choice == 4:
            v = -rng.uniform(0, 1)            # between -1 and 0 degrees
        else:
            v = base * rng.choice([1, -1]) + rng.choice([0, 360]) * rng.choice([0, 1])
        return v
    if item['kind'] == 'boundary':
        rb = dict(check='C08.B.boundaries', function='angles.*', n=0, keys=set(), failures=[], samples=[dict(dec=14.999999999999998, to='hp')])
        offs = [10.0 ** -k for k in range(1, 11)] + [3e-10, 4.9e-10, 5e-10, 5.1e-10, 9e-10, 2e-9, 5e-9]
        offs = [0.0] + offs + [-o for o in offs]
        nf = {}
        for d in range(item['d0'], item['d1']):
            mins = (0, 1, 30, 59) if not (item['thorough'] and d % 7 == 0) else range(60)
            for m in mins:
                b0 = d + m / 60
                vals = [b0 + o / 3600 for o in offs] + [M.nextafter(b0, 0.0), M.nextafter(b0, 1e9), M.degrees(M.radians(b0))]
                for v0 in vals:
                    for dec in (v0, -v0):
                        if abs(dec) > 720 or (dec == 0 and M.copysign(1, dec) < 0):
                            continue
                        for k2 in KINDS:
                            if k2 == 'dec':
                                continue
                            try:
                                w = convert('dec', dec, k2)
                                rb['n'] += 1
                                got = den(k2, w)
                                ok = abs(got - dec) <= TOL and ((dec < 0) == (got < 0) or abs(dec) <= TOL)
                                if ok and k2 in ('hp', 'HP') and not valid_hp(w if k2 == 'hp' else w.hp_angle):
                                    ok = False
                            except ValueError as ex:
                                ok, got = False, 'ValueError: %s' % str(ex)[:60]
                            if not ok:
                                nf[k2] = nf.get(k2, 0) + 1
                                if nf[k2] <= 3:
                                    rb['failures'].append(dict(input=dict(dec=dec, chain=[k2]), what='conversion at a minute/degree boundary changes the angle, its sign, or yields invalid HP', got=got if isinstance(got, str) else float(got)))
                rb['keys'].add((d, m))
        for k2, c in nf.items():
            if c > 3:
                rb['failures'].append(dict(input=dict(to=k2, more=c - 3), what='further boundary cases counted, not listed'))
        return [rb]
    for it in range(item['n']):
        dec = start_values()
        if abs(dec) > 720:
            continue
        a, b, c = rng.choice(KINDS), rng.choice(KINDS), rng.choice(KINDS)
        if it < 81:
            a, b = KINDS[it // 9], KINDS[it % 9]          # every ordered pair at least once per chunk
        try:
            v0 = convert('dec', dec, a) if a != 'dec' else dec
            if v0 is None:
                continue
            path = [a]
            v, k = v0, a
            okc = True
            for k2 in (b, c):
                w = convert(k, v, k2)
                if w is None:
                    w = convert('dec', convert(k, v, 'dec'), k2)
                v, k = w, k2
                path.append(k2)
            r['n'] += 1
            r['keys'].add((dec, a, b, c))
            got = den(k, v)
            if abs(got - dec) > TOL or (dec < 0) != (got < 0) and abs(dec) > TOL:
                r['failures'].append(dict(input=dict(dec=dec, chain=path), what='conversion chain changes the angle or its sign', got=got))
            if k in ('hp', 'HP') and not valid_hp(v if k == 'hp' else v.hp_angle):
                r['failures'].append(dict(input=dict(dec=dec, chain=path), what='invalid HP value produced'))
        except ValueError as ex:
            r['failures'].append(dict(input=dict(dec=dec, chain=[a, b, c]), what='ValueError along the chain: %s' % str(ex)[:80]))
    r['samples'] = [dict(dec=12.582, chain=['hp', 'DMS', 'GON'])]
    return [r]


def replay_case(check, inp):
    import geodepy.angles as A
    if 'hp' in inp and 'function' not in inp:
        hp = inp['hp']
        out = {}
        for nm, f in (('hp2dec', A.hp2dec), ('hp2dms', lambda h: A.hp2dms(h).dec()), ('hp2ddm', lambda h: A.hp2ddm(h).dec()), ('HPAngle', lambda h: A.HPAngle(h).dec())):
            try:
                out[nm] = f(hp)
            except ValueError as ex:
                out[nm] = 'ValueError: %s' % ex
        want = hp_den(hp)
        badk = [k for k, v in out.items() if isinstance(v, str) or abs(v - want) > TOL]
        return dict(input=inp, results=out, expected_degrees=want, failing=badk) if badk else None
    return dict(note='re-run ./check C08', input=inp)
