"""Layer B for C18 - decides the property: generated SINEX 2.02 solutions (independent writer and parser), every subset of
stations as removal set, a substituted clock.  geodepy.gnss needs pandas only at import: an empty stub module is used."""
import os, sys, random, itertools, math, re, tempfile, shutil, types, datetime as _dt

RULES = {
    'C18.B.remove_stns': 'generated files: 1..7 station solutions (quick) / 1..12 (thorough), solution numbers 1..3, in 30 % of the files one site with a discontinuity (two solutions: one SITE/ID line, two EPOCHS lines, two sets of estimates), latitudes written -0 MM SS.S, with/without velocities, L and U matrices, random SPD covariances, EVERY subset of stations as removal set for <= 6 stations (sampled above) plus lists naming a station twice or naming a station that is not in the file, wall clock substituted at 00:00:00, 00:16:39, 02:46:39, 02:46:40, 12:00:00, 23:59:59 and year boundaries: output well formed (fixed-width header, every block closed on its own line, %ENDSNX last), estimates = remaining ones in order and renumbered, covariance = original minus removed rows/columns, header parameter count',
    'C18.B.remove_velocity': 'files with velocities: output keeps exactly the position estimates (renumbered) and their covariance sub-matrix, header count halved and fixed width, velocity flag removed, well formed',
    'C18.B.remove_matrixzeros': 'files whose covariance has all-zero matrix lines (uncorrelated stations) or element-wise random zeros (lines with every mix of zero and non-zero elements): those lines are dropped, every other line is unchanged and on its own line',
    'C18.B.readers': 'read_sinex_estimate, read_sinex_matrix, read_sinex_sites return exactly the values written',
}
CLOCKS = [(2020, 1, 1, 0, 0, 0), (2021, 3, 7, 0, 16, 39), (2022, 12, 31, 2, 46, 39), (2023, 6, 15, 2, 46, 40), (2024, 2, 29, 12, 0, 0), (2019, 12, 31, 23, 59, 59), (2000, 1, 1, 0, 0, 1)]
SEP = '*-------------------------------------------------------------------------------'


def chunks(tier, seed):
    return [dict(seed=seed * 83 + i, nfiles=6 if tier == 'quick' else 40, maxst=7 if tier == 'quick' else 12) for i in range(8)]


def load_gnss():
    if 'pandas' not in sys.modules:
        try:
            import pandas          # noqa
        except Exception:
            sys.modules['pandas'] = types.ModuleType('pandas')
    import warnings
    warnings.filterwarnings('ignore', category=SyntaxWarning)
    import geodepy.gnss as g
    return g


# ------------------------------------------------------------------------------------------------ independent writer
def gen_solution(rng, nst, vel, tri):
    names = rng.sample(['ALIC', 'HOB2', 'VERA', 'KARR', 'YAR2', 'TOW2', 'DARW', 'MOBS', 'STR1', 'CEDU', 'PERT', 'ADE1', 'SYDN', 'TID1', 'V001'], nst)
    st = []
    for nm in names:
        st.append(dict(code=nm, pt=' A', soln=rng.randint(1, 3), domes='%05dM%03d' % (rng.randint(10000, 99999), rng.randint(1, 9)), desc=('Station ' + nm).ljust(22)[:22],
                       lon=(rng.randint(0, 359), rng.randint(0, 59), rng.randint(0, 599) / 10), lat=(rng.randint(-89, 89), rng.randint(0, 59), rng.randint(0, 599) / 10),
                       h=rng.randint(-500, 89999) / 10, xyz=[rng.uniform(-6e6, 6e6) for _ in range(3)], v=[rng.uniform(-0.1, 0.1) for _ in range(3)]))
    multi = False
    if nst >= 2 and rng.random() < 0.3:
        # a station with a discontinuity: two solutions (1 and 2) of the same site - one SITE/ID line, two EPOCHS lines, two sets of estimates
        i = rng.randrange(nst - 1)
        twin = dict(st[i])
        twin['xyz'] = [v + rng.uniform(-0.05, 0.05) for v in st[i]['xyz']]
        twin['v'] = [rng.uniform(-0.1, 0.1) for _ in range(3)]
        st[i]['soln'], twin['soln'] = 1, 2
        st[i + 1] = twin
        multi = True
    for s_ in st:               # latitudes between 0 and -1 degree are written ' -0 MM SS.S'
        if rng.random() < 0.15:
            s_['lat'] = (0, s_['lat'][1], s_['lat'][2])
            s_['lat_neg'] = rng.random() < 0.7
    npar = nst * (6 if vel else 3)
    G = [[rng.gauss(0, 1) for _ in range(npar)] for _ in range(npar)]
    M = [[sum(G[i][k] * G[j][k] for k in range(npar)) * 1e-6 for j in range(npar)] for i in range(npar)]
    mode = rng.random()
    if mode < 0.35 and nst > 1:          # uncorrelated stations: all-zero matrix lines exist
        for i in range(npar):
            for j in range(npar):
                if i // (6 if vel else 3) != j // (6 if vel else 3):
                    M[i][j] = 0.0
    elif mode < 0.7:                     # element-wise sparsity: matrix lines with every mix of zero and non-zero elements (0 0 x, 0 x 0, x 0 0, ...)
        for i in range(npar):
            for j in range(i):
                if rng.random() < 0.6:
                    M[i][j] = M[j][i] = 0.0
    M = [[float('%.14e' % M[max(i, j)][min(i, j)]) for j in range(npar)] for i in range(npar)]
    return dict(stations=st, vel=vel, tri=tri, M=M, npar=npar, agency=rng.choice(['AUS', 'VER', 'IGS', 'GAV']), multi=multi)


def est_lines(sol):
    out, idx = [], 0
    for s in sol['stations']:
        comps = [('STAX', s['xyz'][0], 'm'), ('STAY', s['xyz'][1], 'm'), ('STAZ', s['xyz'][2], 'm')]
        if sol['vel']:
            comps += [('VELX', s['v'][0], 'm/y'), ('VELY', s['v'][1], 'm/y'), ('VELZ', s['v'][2], 'm/y')]
        for typ, val, unit in comps:
            idx += 1
            sd = math.sqrt(sol['M'][idx - 1][idx - 1])
            out.append(' %5d %-6s %4s %2s %4d %12s %-4s %1s %21.14e %11.5e' % (idx, typ, s['code'], s['pt'], s['soln'], '19:183:43185', unit, '2', val, sd))
    return out


def mat_lines(M, tri):
    out, n = [], len(M)
    for i in range(n):
        cols = range(0, i + 1) if tri == 'L' else range(i, n)
        cols = list(cols)
        for k in range(0, len(cols), 3):
            grp = cols[k:k + 3]
            out.append(' %5d %5d' % (i + 1, grp[0] + 1) + ''.join(' %21.14e' % M[i][j] for j in grp))
    return out


def write_sinex(path, sol):
    L = []
    L.append('%%=SNX 2.02 %s 20:001:00000 IGS 19:001:00000 19:365:86370 P %05d 2 S%s' % (sol['agency'], sol['npar'], ' V' if sol['vel'] else ''))
    L += [SEP, '+FILE/COMMENT', ' generated by the verification writer', '-FILE/COMMENT', SEP, '+SITE/ID', '*CODE PT __DOMES__ T _STATION DESCRIPTION__ APPROX_LON_ APPROX_LAT_ _APP_H_']
    seen_codes = set()
    for s in sol['stations']:
        if s['code'] in seen_codes:
            continue
        seen_codes.add(s['code'])
        latdeg = '%3d' % s['lat'][0] if not (s['lat'][0] == 0 and s.get('lat_neg')) else ' -0'
        L.append(' %4s %2s %9s %1s %22s %3d %2d %4.1f %s %2d %4.1f %7.1f' % (s['code'], s['pt'], s['domes'], 'P', s['desc'], s['lon'][0], s['lon'][1], s['lon'][2], latdeg, s['lat'][1], s['lat'][2], s['h']))
    L += ['-SITE/ID', SEP, '+SOLUTION/EPOCHS', '*CODE PT SOLN T _DATA_START_ __DATA_END__ _MEAN_EPOCH_']
    for s in sol['stations']:
        L.append(' %4s %2s %4d %1s %12s %12s %12s' % (s['code'], s['pt'], s['soln'], 'P', '19:001:00000', '19:365:86370', '19:183:43185'))
    L += ['-SOLUTION/EPOCHS', SEP, '+SOLUTION/ESTIMATE', '*INDEX TYPE__ CODE PT SOLN _REF_EPOCH__ UNIT S __ESTIMATED VALUE____ _STD_DEV___']
    L += est_lines(sol)
    L += ['-SOLUTION/ESTIMATE', SEP, '+SOLUTION/MATRIX_ESTIMATE %s COVA' % sol['tri'], '*PARA1 PARA2 ____PARA2+0__________ ____PARA2+1__________ ____PARA2+2__________']
    L += mat_lines(sol['M'], sol['tri'])
    L += ['-SOLUTION/MATRIX_ESTIMATE %s COVA' % sol['tri'], '%ENDSNX']
    with open(path, 'w') as f:
        f.write('\n'.join(L) + '\n')


# ------------------------------------------------------------------------------------------------ independent parser
def parse(path):
    txt = open(path).read()
    lines = txt.split('\n')
    prob = []
    if not txt.endswith('\n'):
        prob.append('file does not end with a newline')
    lines = lines[:-1] if lines and lines[-1] == '' else lines
    if not lines or lines[-1] != '%ENDSNX':
        prob.append('last line is not %%ENDSNX: %r' % (lines[-1] if lines else None))
    hdr = lines[0] if lines else ''
    blocks, cur = {}, None
    for ln in lines[1:]:
        if ln.startswith('+'):
            if cur is not None:
                prob.append('block %s not closed before %s' % (cur, ln[:30]))
            cur = ln.split()[0][1:]
            blocks[cur] = dict(head=ln, lines=[])
        elif ln.startswith('-'):
            nm = ln.split()[0][1:]
            if nm != cur:
                prob.append('unexpected block end %r' % ln[:40])
            elif ln.strip() != ln or len(ln.split()[0]) != len(nm) + 1:
                prob.append('block end not on its own line: %r' % ln[:60])
            else:
                blocks[cur]['end'] = ln
            cur = None
        elif cur is not None:
            blocks[cur]['lines'].append(ln)
    if cur is not None:
        prob.append('block %s never closed' % cur)
    est = []
    for ln in blocks.get('SOLUTION/ESTIMATE', dict(lines=[]))['lines']:
        if ln.startswith('*'):
            continue
        est.append(dict(index=int(ln[1:6]), typ=ln[7:13].strip(), code=ln[14:18], soln=ln[22:26].strip(), rest=ln[6:], value=float(ln[47:68]), sd=float(ln[69:80])))
    mb = blocks.get('SOLUTION/MATRIX_ESTIMATE', dict(lines=[], head=''))
    tri = mb['head'].split()[1] if len(mb['head'].split()) > 1 else '?'
    n = len(est)
    M = [[None] * n for _ in range(n)]
    for ln in mb['lines']:
        if ln.startswith('*'):
            continue
        c = ln.split()
        try:
            i, j0 = int(c[0]), int(c[1])
            vals = [float(v) for v in c[2:]]
        except (ValueError, IndexError):
            prob.append('malformed matrix line %r' % ln[:80])
            continue
        if len(c) > 5 or not re.match(r'^ +\d+ +\d+( +[-+0-9.eE]+){1,3} *$', ln):
            prob.append('malformed matrix line %r' % ln[:80])
            continue
        for k, v in enumerate(vals):
            if 1 <= i <= n and 1 <= j0 + k <= n:
                M[i - 1][j0 + k - 1] = v
                M[j0 + k - 1][i - 1] = v
            else:
                prob.append('matrix index out of range in %r' % ln[:60])
    sites = [ln[1:5] for ln in blocks.get('SITE/ID', dict(lines=[]))['lines'] if not ln.startswith('*')]
    epochs = [ln[1:5] for ln in blocks.get('SOLUTION/EPOCHS', dict(lines=[]))['lines'] if not ln.startswith('*')]
    return dict(header=hdr, blocks=blocks, est=est, M=M, tri=tri, sites=sites, epochs=epochs, problems=prob, lines=lines)


def header_ok(h, nparams, vel):
    pr = []
    if not re.match(r'^%=SNX \d\.\d\d \S{3} \d\d:\d\d\d:\d{5} \S{3} \d\d:\d\d\d:\d{5} \d\d:\d\d\d:\d{5} \S \d{5} \S( \S)*$', h):
        pr.append('header line is not fixed width: %r' % h)
    else:
        if int(h[60:65]) != nparams:
            pr.append('header parameter count %s != %d' % (h[60:65], nparams))
        if (h.rstrip().endswith(' V')) != bool(vel):
            pr.append('velocity flag wrong in header %r' % h)
    return pr


class FakeDT(_dt.datetime):
    FIX = None

    @classmethod
    def now(cls, tz=None):
        return cls(*cls.FIX)


def expected_after_removal(sol, removed):
    per = 6 if sol['vel'] else 3
    keep = [i for i, s in enumerate(sol['stations']) if s['code'] not in removed]
    idx = [i * per + k for i in keep for k in range(per)]
    M = [[sol['M'][a][b] for b in idx] for a in idx]
    est = [ln[6:] for i, ln in enumerate(est_lines(sol)) if i in idx]
    return keep, idx, M, est


def work(item):
    g = load_gnss()
    rng = random.Random(item['seed'])
    real_dt = g.datetime
    d = tempfile.mkdtemp(prefix='snx_', dir=os.environ.get('VERIF_SCRATCH'))
    cwd = os.getcwd()
    os.chdir(d)
    R = {k: dict(check=k, function='gnss.' + k.split('.')[-1], n=0, keys=set(), failures=[], samples=[]) for k in RULES}
    try:
        for fi in range(item['nfiles']):
            nst = rng.randint(1, item['maxst'])
            vel = rng.random() < 0.5
            tri = rng.choice(['L', 'U'])
            sol = gen_solution(rng, nst, vel, tri)
            src = os.path.join(d, 'in%d.snx' % fi)
            write_sinex(src, sol)
            base = dict(stations=nst, vel=vel, tri=tri, agency=sol['agency'], codes=[s['code'] for s in sol['stations']])
            # ---------------- readers
            r = R['C18.B.readers']
            r['n'] += 1
            r['keys'].add((item['seed'], fi))
            try:
                uniq = []
                for s_ in sol['stations']:
                    if s_['code'] not in [u['code'] for u in uniq]:
                        uniq.append(s_)
                est = g.read_sinex_estimate(src)
                ok = len(est) == nst
                for e_, s in zip(est, sol['stations']):
                    i0 = sol['stations'].index(s) * (6 if vel else 3)
                    want = (s['code'], str(s['soln']), '19:183:43185', float('%.14e' % s['xyz'][0]), float('%.14e' % s['xyz'][1]), float('%.14e' % s['xyz'][2]))
                    ok = ok and tuple(e_[:6]) == want and all(abs(e_[6 + k] - float('%.5e' % math.sqrt(sol['M'][i0 + k][i0 + k]))) == 0 for k in range(3))
                    if vel:
                        ok = ok and tuple(e_[9:12]) == tuple(float('%.14e' % v) for v in s['v'])
                if not ok:
                    r['failures'].append(dict(input=base, what='read_sinex_estimate does not return the written values'))
                mat = g.read_sinex_matrix(src)
                okm = len(mat) == nst
                for k, (m_, s) in enumerate(zip(mat, sol['stations'])):
                    i0 = k * (6 if vel else 3)
                    Mx = sol['M']
                    if tri == 'U':
                        want = [Mx[i0][i0], Mx[i0][i0 + 1], Mx[i0][i0 + 2], Mx[i0 + 1][i0 + 1], Mx[i0 + 1][i0 + 2], Mx[i0 + 2][i0 + 2]]
                    else:
                        want = [Mx[i0][i0], Mx[i0 + 1][i0], Mx[i0 + 1][i0 + 1], Mx[i0 + 2][i0], Mx[i0 + 2][i0 + 1], Mx[i0 + 2][i0 + 2]]
                    okm = okm and m_[0] == s['code'] and list(m_[2:8]) == want
                if not okm:
                    r['failures'].append(dict(input=base, what='read_sinex_matrix does not return the written values'))
                sites = g.read_sinex_sites(src)
                oks = len(sites) == len(uniq)
                for q, s in zip(sites, uniq):
                    lat_neg = s['lat'][0] < 0 or (s['lat'][0] == 0 and bool(s.get('lat_neg')) and (s['lat'][1] > 0 or s['lat'][2] > 0))
                    oks = oks and q[0] == s['code'] and q[2] == s['domes'] and q[3] == 'P' and q[4] == s['desc'].lstrip() and q[7] == s['h'] \
                        and (q[5].degree, q[5].minute, q[5].second) == (abs(s['lon'][0]), s['lon'][1], s['lon'][2]) and (q[6].degree, q[6].minute, q[6].second) == (abs(s['lat'][0]), s['lat'][1], s['lat'][2]) \
                        and (q[6].dec() < 0) == lat_neg and (q[5].dec() < 0) == (s['lon'][0] < 0)
                if not oks:
                    r['failures'].append(dict(input=dict(base, example_height=sol['stations'][0]['h']), what='read_sinex_sites does not return the written values (code, domes, description, lon, lat, height)',
                                              got=repr(sites[0])[:200] if sites else None))
            except Exception as ex:
                r['failures'].append(dict(input=base, what='reader raised %s: %s' % (type(ex).__name__, str(ex)[:100])))
            # ---------------- station removal: every subset (<= 6 stations) / sampled, clock substituted
            codes = [s['code'] for s in sol['stations']]
            ucodes = [u['code'] for u in uniq] if 'uniq' in dir() else sorted(set(codes), key=codes.index)
            nu = len(ucodes)
            subsets = [c for k in range(0, nu) for c in itertools.combinations(ucodes, k)] if nu <= 6 else [tuple(rng.sample(ucodes, rng.randint(0, nu - 1))) for _ in range(40)]
            if nu >= 3:          # removal lists as callers build them: a name listed twice (two exclusion lists joined), a name that is not in the file
                subsets = list(subsets) + [(ucodes[0], ucodes[1], ucodes[0]), (ucodes[1], 'ZZZZ'), (ucodes[2], ucodes[2])]
            r = R['C18.B.remove_stns']
            for si, rem in enumerate(subsets):
                clk = CLOCKS[(si + fi) % len(CLOCKS)]
                FakeDT.FIX = clk
                g.datetime = FakeDT
                inp = dict(base, removed=list(rem), clock='%04d-%02d-%02d %02d:%02d:%02d' % clk)
                r['n'] += 1
                r['keys'].add((item['seed'], fi, rem))
                try:
                    if os.path.exists('output.snx'):
                        os.unlink('output.snx')
                    g.remove_stns_sinex(src, list(rem))
                    out = parse('output.snx')
                    keep, idx, Mexp, eexp = expected_after_removal(sol, set(rem))
                    pr = list(out['problems']) + header_ok(out['header'], len(idx), vel)
                    if [e['rest'] for e in out['est']] != eexp or [e['index'] for e in out['est']] != list(range(1, len(idx) + 1)):
                        pr.append('estimates are not the remaining ones in order, renumbered consecutively')
                    if out['M'] != Mexp or out['tri'] != tri:
                        pr.append('covariance is not the original with the removed rows/columns deleted')
                    ksites = []
                    for i in keep:
                        if codes[i] not in ksites:
                            ksites.append(codes[i])
                    if out['sites'] != ksites or out['epochs'] != [codes[i] for i in keep]:
                        pr.append('SITE/ID or SOLUTION/EPOCHS do not list exactly the remaining stations')
                    if pr:
                        r['failures'].append(dict(input=inp, what='; '.join(pr)[:400]))
                except Exception as ex:
                    r['failures'].append(dict(input=inp, what='remove_stns_sinex raised %s: %s' % (type(ex).__name__, str(ex)[:100])))
                finally:
                    g.datetime = real_dt
            # ---------------- velocity removal
            if vel:
                r = R['C18.B.remove_velocity']
                clk = CLOCKS[fi % len(CLOCKS)]
                FakeDT.FIX = clk
                g.datetime = FakeDT
                r['n'] += 1
                r['keys'].add((item['seed'], fi))
                r['keys'].add((item['seed'], fi, 'v'))
                inp = dict(base, clock='%04d-%02d-%02d %02d:%02d:%02d' % clk)
                try:
                    g.remove_velocity_sinex(src)
                    out = parse('output.snx')
                    pidx = [i * 6 + k for i in range(nst) for k in range(3)]
                    Mexp = [[sol['M'][a][b] for b in pidx] for a in pidx]
                    eexp = [ln[6:] for i, ln in enumerate(est_lines(sol)) if i in pidx]
                    pr = list(out['problems']) + header_ok(out['header'], 3 * nst, False)
                    if [e['rest'] for e in out['est']] != eexp or [e['index'] for e in out['est']] != list(range(1, 3 * nst + 1)):
                        pr.append('estimates are not exactly the position estimates, renumbered')
                    if out['M'] != Mexp:
                        pr.append('covariance is not the position sub-matrix')
                    if out['header'][11:14] != sol['agency']:
                        pr.append('agency code changed in the header: %r' % out['header'][:20])
                    if pr:
                        r['failures'].append(dict(input=inp, what='; '.join(pr)[:400]))
                except BaseException as ex:
                    r['failures'].append(dict(input=inp, what='remove_velocity_sinex raised %s: %s' % (type(ex).__name__, str(ex)[:100])))
                finally:
                    g.datetime = real_dt
            # ---------------- zero-line removal
            r = R['C18.B.remove_matrixzeros']
            FakeDT.FIX = CLOCKS[(fi + 3) % len(CLOCKS)]
            g.datetime = FakeDT
            r['n'] += 1
            r['keys'].add((item['seed'], fi))
            r['keys'].add((item['seed'], fi, 'z'))
            try:
                g.remove_matrixzeros_sinex(src)
                out = parse('output.snx')
                src_lines = open(src).read().split('\n')[:-1]
                zero = lambda ln: ln.startswith(' ') and len(ln.split()) >= 3 and all(float(v) == 0.0 for v in ln.split()[2:]) and re.match(r'^ +\d+ +\d+ ', ln)
                inm = False
                want = []
                for ln in src_lines[1:]:
                    if ln.startswith('+SOLUTION/MATRIX_ESTIMATE'):
                        inm = True
                    if inm and zero(ln):
                        continue
                    want.append(ln)
                got = [ln for ln in out['lines'][1:] if not ln.startswith('* File created by Geodepy')]
                pr = list(out['problems']) + header_ok(out['header'], sol['npar'], vel)
                if [l for l in got if l != SEP] != [l for l in want if l != SEP]:
                    pr.append('lines other than the all-zero matrix lines changed or are not on their own line')
                if pr:
                    r['failures'].append(dict(input=base, what='; '.join(pr)[:400]))
            except Exception as ex:
                r['failures'].append(dict(input=base, what='remove_matrixzeros_sinex raised %s: %s' % (type(ex).__name__, str(ex)[:100])))
            finally:
                g.datetime = real_dt
    finally:
        os.chdir(cwd)
        shutil.rmtree(d, ignore_errors=True)
    for k in R:
        R[k]['samples'] = [dict(stations=3, vel=True, tri='L')]
        if R[k]['n'] == 0:
            R[k]['n'] = 0
    return [v for v in R.values() if v['n'] > 0]


def replay_case(check, inp):
    return dict(note='generated files are reproduced from the seed: re-run ./check C18', input=inp)
