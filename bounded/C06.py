"""Layer B for C06 (bounded stand-in): conform7 vs the similarity formula in 50 digits; covariance propagation numerically."""
import random, math
import numpy as np
import mpmath as mp
from spec import helmert as H

RULES = {
    'C06.B.formula': 'every shipped parameter set + random sets (|t|<=1000 m, |sc|<=100 ppm, |r|<60 arcsec) x points in all octants up to 5e7 m: |conform7 - formula(50 digits)| <= 1 micrometre; round trip with the negated set <= 0.01 mm (2 mm AGD66/84)',
    'C06.B.covariance': 'sets with uncertainties x symmetric PSD input covariances (full rank, rank 1/2, zero, large condition numbers, integer-typed arrays: whole-number diagonal and all-zero): result returned, symmetric, PSD (eigenvalues >= -1e-12 scale), equals J Q J^T evaluated independently (relative 1e-9)',
}
PARAMS = ('tx', 'ty', 'tz', 'sc', 'rx', 'ry', 'rz')


def chunks(tier, seed):
    n = 8 if tier == 'quick' else 32
    return [dict(seed=seed * 101 + i, i=i, n=n, pts=6 if tier == 'quick' else 60) for i in range(n)]


def formula(X, t):
    mp.mp.dps = 50
    return H.similarity([mp.mpf(v) for v in X], [mp.mpf(t.tx), mp.mpf(t.ty), mp.mpf(t.tz)], mp.mpf(t.sc), [mp.mpf(t.rx), mp.mpf(t.ry), mp.mpf(t.rz)], mp.pi)


def check_formula(tr, t, X, lim_rt):
    got = tr.conform7(X[0], X[1], X[2], t)
    want = formula(X, t)
    d = max(abs(mp.mpf(g) - w) for g, w in zip(got[:3], want))
    if d > mp.mpf('1e-6'):
        return dict(what='conform7 differs from the similarity formula by more than 1 micrometre', deviation_m=float(d), got=list(got[:3]))
    back = tr.conform7(got[0], got[1], got[2], -t)
    r = max(abs(b - x) for b, x in zip(back[:3], X))
    if r > lim_rt:
        return dict(what='set followed by its negation does not return the point', residual_m=r)
    return None


def work(item):
    import geodepy.transform as tr, geodepy.constants as C
    rng = random.Random(item['seed'])
    cat = [(n, v) for n, v in sorted(vars(C).items()) if isinstance(v, C.Transformation)]
    mine = cat[item['i']::item['n']]
    r1 = dict(check='C06.B.formula', function='transform.conform7', n=0, keys=set(), failures=[], samples=[])
    r2 = dict(check='C06.B.covariance', function='transform.conform7', n=0, keys=set(), failures=[], samples=[])
    sets = [(n, t, 2e-3 if ('agd66' in n or 'agd84' in n) else 1e-5) for n, t in mine]
    for k in range(item['pts']):
        t = C.Transformation('A', 'B', 0, rng.uniform(-1000, 1000), rng.uniform(-1000, 1000), rng.uniform(-1000, 1000), rng.uniform(-100, 100),
                             rng.uniform(-59.9, 59.9), rng.uniform(-59.9, 59.9), rng.uniform(-59.9, 59.9))
        sets.append(('random%d' % k, t, None))
    for name, t, lim in sets:
        for k in range(item['pts']):
            X = [rng.choice([-1, 1]) * rng.choice([rng.uniform(0, 5e7), rng.uniform(6.3e6, 6.4e6) * rng.random()]) for _ in range(3)]
            if lim is None:
                # second-order bound of the round trip for a random set: |X| * (|sc|^2 + 3 r^2) + |t| (|sc| + 2 r)
                rmax = max(abs(t.rx), abs(t.ry), abs(t.rz)) / 206264.8
                nx = math.sqrt(sum(v * v for v in X))
                lim_ = 2 * (nx * ((t.sc * 1e-6) ** 2 + 3 * rmax ** 2 + 2 * abs(t.sc) * 1e-6 * rmax) + 1800 * (abs(t.sc) * 1e-6 + 2 * rmax)) + 1e-8
            else:
                lim_ = lim
            fl = check_formula(tr, t, X, lim_)
            r1['n'] += 1
            r1['keys'].add((name, tuple(X)))
            if fl:
                fl['input'] = dict(set=name, X=X, params=[getattr(t, p) for p in PARAMS])
                r1['failures'].append(fl)
    r1['samples'] = [dict(set=sets[0][0], X=[1.0, 2.0, 3.0])]
    # covariance
    sdsets = [(n, t) for n, t in mine if isinstance(t.tf_sd, C.TransformationSD) and t.tf_sd.sd_tx is not None and t.tf_sd.sd_rx is not None]
    sd = C.TransformationSD(0.001, 0.002, 0.0015, 0.0001, 0.00002, 0.00003, 0.00001)
    sdsets.append(('random_sd', C.Transformation('A', 'B', 0, 1.0, -2.0, 3.0, 0.5, 0.1, -0.2, 0.3, tf_sd=sd)))
    for name, t in sdsets:
        for k in range(item['pts']):
            kind = ('full', 'rank1', 'rank2', 'zero', 'illcond', 'int-diagonal', 'int-zero')[k % 7]
            G = np.array([[rng.gauss(0, 1) for _ in range(3)] for _ in range(3)])
            if kind == 'rank1':
                G[:, 1:] = 0
            elif kind == 'rank2':
                G[:, 2] = 0
            elif kind == 'zero':
                G[:] = 0
            elif kind == 'illcond':
                G = G @ np.diag([1, 1e-2, 1e-4])
            V = G @ G.T * 10 ** rng.uniform(-8, -2)
            if kind == 'int-diagonal':          # a covariance typed in whole numbers: an integer numpy array is as valid an input as a float one
                V = np.diag([rng.randint(1, 4), rng.randint(1, 4), rng.randint(1, 9)])
            elif kind == 'int-zero':            # a point held fixed
                V = np.zeros((3, 3), dtype=int)
            X = [rng.uniform(-6.4e6, 6.4e6) for _ in range(3)]
            inp = dict(set=name, X=X, V=V.tolist(), kind=kind)
            r2['n'] += 1
            r2['keys'].add((name, k, item['seed']))
            try:
                out = tr.conform7(X[0], X[1], X[2], t, V)
            except Exception as ex:
                r2['failures'].append(dict(input=inp, what='exception with covariance input: %s: %s' % (type(ex).__name__, ex)))
                continue
            W = out[3]
            if W is None:
                r2['failures'].append(dict(input=inp, what='no covariance returned'))
                continue
            W = np.array(W, dtype=float)
            s_ = 1 + t.sc / 1e6
            rr = [math.radians(getattr(t, p) / 3600) for p in ('rx', 'ry', 'rz')]
            J = np.array(H.jacobian(X, t.sc, (t.rx, t.ry, t.rz), math.pi), dtype=float)
            Q = np.zeros((10, 10))
            Q[:3, :3] = V
            Q[3, 3] = (t.tf_sd.sd_sc / 1e6) ** 2
            for q, p in enumerate(('sd_rx', 'sd_ry', 'sd_rz')):
                Q[4 + q, 4 + q] = math.radians(getattr(t.tf_sd, p) / 3600) ** 2
            for q, p in enumerate(('sd_tx', 'sd_ty', 'sd_tz')):
                Q[7 + q, 7 + q] = getattr(t.tf_sd, p) ** 2
            ref = J @ Q @ J.T
            sc = max(np.abs(ref).max(), 1e-300)
            if W.shape != (3, 3) or np.abs(W - W.T).max() > 1e-12 * sc or np.linalg.eigvalsh((W + W.T) / 2).min() < -1e-12 * sc or np.abs(W - ref).max() > 1e-9 * sc:
                r2['failures'].append(dict(input=inp, what='covariance not symmetric / PSD / != J Q J^T', got=W.tolist(), ref=ref.tolist()))
    r2['samples'] = [dict(set=sdsets[0][0], kind='full')]
    return [r1, r2]


def replay_case(check, inp):
    import geodepy.transform as tr, geodepy.constants as C
    if 'params' in inp:
        t = C.Transformation('A', 'B', 0, *inp['params'])
        return check_formula(tr, t, inp['X'], 1.0)
    return dict(note='re-run ./check C06', input=inp)
