"""Layer B for C20 (bounded stand-in): Flask test client vs direct library calls."""
import random, math, json

RULES = {
    'C20.B.endpoints': 'random queries over the C04/C05 domains (incl. negative/western/southern values, HP-valid inputs) x all 9 combinations of from_angle_type/to_angle_type in {dd, dms, absent} x both endpoints: status 200 and JSON body == library return values (after hp2dec/dec2hp exactly as specified), compared exactly after a JSON round trip',
    'C20.B.index': 'GET / lists every route declared in api/app.py',
}


def chunks(tier, seed):
    return [dict(seed=seed * 7 + i, n=40 if tier == 'quick' else 600) for i in range(4)]


def work(item):
    import api.app as app
    import geodepy.geodesy as gd, geodepy.angles as ang
    rng = random.Random(item['seed'])
    cl = app.app.test_client()
    r = dict(check='C20.B.endpoints', function='api.app', n=0, keys=set(), failures=[], samples=[])

    def hpval(dec):
        return ang.dec2hp(dec)
    for k in range(item['n']):
        for fa in ('dd', 'dms', None):
            for ta in ('dd', 'dms', None):
                la1, lo1 = rng.uniform(-89, 89), rng.uniform(-180, 180)
                la2, lo2 = max(-89.9, min(89.9, la1 + rng.uniform(-20, 20))), lo1 + rng.uniform(-30, 30)
                az, s = rng.uniform(0, 360), 10 ** rng.uniform(0, 6.5)
                if fa == 'dms':
                    la1, lo1, la2, lo2, az = [hpval(round(v, 6)) for v in (la1, lo1, la2, lo2, az)]
                conv_in = ang.hp2dec if fa == 'dms' else (lambda v: v)
                conv_out = ang.dec2hp if ta == 'dms' else (lambda v: v)
                q = {}
                if fa:
                    q['from_angle_type'] = fa
                if ta:
                    q['to_angle_type'] = ta
                for ep, fields, vals in (('/vincinv', ('lat1', 'lon1', 'lat2', 'lon2'), (la1, lo1, la2, lo2)), ('/vincdir', ('lat1', 'lon1', 'azimuth1to2', 'ell_dist'), (la1, lo1, az, s))):
                    qq = dict(q)
                    qq.update({f: repr(v) for f, v in zip(fields, vals)})
                    resp = cl.get(ep, query_string=qq)
                    r['n'] += 1
                    r['keys'].add((ep, fa, ta, vals))
                    inp = dict(endpoint=ep, query=qq)
                    if resp.status_code != 200:
                        r['failures'].append(dict(input=inp, what='status %d' % resp.status_code))
                        continue
                    body = resp.get_json()
                    if ep == '/vincinv':
                        d_, a12, a21 = gd.vincinv(*[conv_in(v) for v in vals])
                        want = dict(ell_dist=d_, azimuth1to2=conv_out(a12), azimuth2to1=conv_out(a21))
                    else:
                        l2, o2, a21 = gd.vincdir(conv_in(vals[0]), conv_in(vals[1]), conv_in(vals[2]), vals[3])
                        want = dict(lat2=conv_out(l2), lon2=conv_out(o2), azimuth2to1=conv_out(a21))
                    want = json.loads(json.dumps(want))
                    if body != want:
                        r['failures'].append(dict(input=inp, what='response differs from the library result', got=body, expected=want))
    r['samples'] = [dict(endpoint='/vincinv', from_angle_type='dms', to_angle_type='dd')]
    r2 = dict(check='C20.B.index', function='api.app.list_routes', n=1, keys={'index', 'x'}, failures=[], samples=[dict(route='/')])
    txt = cl.get('/').get_data(as_text=True)
    for rt in ('/', '/vincinv', '/vincdir'):
        if rt not in txt:
            r2['failures'].append(dict(input=dict(route=rt), what='index does not list the route', got=txt))
    return [r, r2]


def replay_case(check, inp):
    import api.app as app
    cl = app.app.test_client()
    if 'endpoint' in inp:
        resp = cl.get(inp['endpoint'], query_string=inp['query'])
        return dict(status=resp.status_code, body=resp.get_json(), note='compare with the library call; re-run ./check C20 for the judgement')
    return None
