"""Layer B for C15 (bounded stand-in): coordinate objects vs the functional API, height bookkeeping, notation changes, chains."""
import random, math

RULES = {
    'C15.B.functional_agreement': 'world-wide positions in the TM band x heights present/absent/zero in every combination x ellipsoids GRS80/ANS x projections UTM/ISG: object conversions give exactly the numbers of xyz2llh/llh2xyz/geo2grid/grid2geo for the same ellipsoid and projection; heights preserved by geo<->tm; N = ell - orth in every conversion to/from Cartesian',
    'C15.B.notation': 'all 6x6 ordered pairs of notations (float + five classes) as source and target: no exception, position unchanged within 1e-8 arc-seconds, heights kept',
    'C15.B.chains': 'random conversion chains of length 2..8 over {cart, geo, tm, notation}: the chain ends within 0.3 mm of the starting position (and heights within 0.3 mm)',
}


def chunks(tier, seed):
    return [dict(seed=seed * 19 + i, n=60 if tier == 'quick' else 900) for i in range(8)]


def work(item):
    import warnings
    warnings.simplefilter('ignore')
    import geodepy.coord as cd, geodepy.convert as cv, geodepy.constants as C, geodepy.angles as ang
    rng = random.Random(item['seed'])
    NOT = [float, ang.DECAngle, ang.HPAngle, ang.GONAngle, ang.DMSAngle, ang.DDMAngle]
    r1 = dict(check='C15.B.functional_agreement', function='coord.*', n=0, keys=set(), failures=[], samples=[])
    r2 = dict(check='C15.B.notation', function='coord.CoordGeo.notation', n=0, keys=set(), failures=[], samples=[])
    r3 = dict(check='C15.B.chains', function='coord.*', n=0, keys=set(), failures=[], samples=[])

    def dec(v):
        return float(v.dec()) if hasattr(v, 'dec') else v
    for k in range(item['n']):
        e, p = rng.choice([(C.grs80, C.utm), (C.ans, C.isg), (C.ans, C.utm), (C.grs80, C.isg)])
        if p is C.isg:
            lat, lon = rng.uniform(-38, -28), rng.uniform(141, 153.9)
        else:
            lat, lon = rng.uniform(-79.9, 83.9), rng.uniform(-180, 179.99)
        eh = rng.choice([None, 0.0, rng.uniform(-100, 9000)])
        oh = rng.choice([None, 0.0, rng.uniform(-100, 9000)])
        inp = dict(lat=lat, lon=lon, ell_ht=eh, orth_ht=oh, ellipsoid='grs80' if e is C.grs80 else 'ans', projection='utm' if p is C.utm else 'isg')
        r1['n'] += 1
        r1['keys'].add((lat, lon, eh, oh, inp['ellipsoid'], inp['projection']))
        try:
            g = cd.CoordGeo(lat, lon, eh, oh)
            c = g.cart(e)
            x, y, z = cv.llh2xyz(lat, lon, eh if eh is not None else 0, e)
            ok = (c.xaxis, c.yaxis, c.zaxis) == (x, y, z)
            ok = ok and ((c.nval is None) if (eh is None or oh is None) else (c.nval is not None and abs(c.nval - (eh - oh)) < 1e-9))
            t = g.tm(e, p)
            fz = cv.geo2grid(lat, lon, 0, e, p)
            ok = ok and (t.zone, t.east, t.north, t.hemi_north) == (fz[1], fz[2], fz[3], fz[0] == 'North') and t.ell_ht == eh and t.orth_ht == oh and t.projection is p
            g2 = t.geo(e, float)
            fg = cv.grid2geo(t.zone, t.east, t.north, 'north' if t.hemi_north else 'south', e, p)
            ok = ok and (g2.lat, g2.lon) == (fg[0], fg[1]) and g2.ell_ht == eh and g2.orth_ht == oh
            nv = rng.choice([None, 0.0, rng.uniform(-50, 50)])
            cc = cd.CoordCart(x, y, z, nv)
            g3 = cc.geo(e, float)
            fl = cv.xyz2llh(x, y, z, e)
            ok = ok and (g3.lat, g3.lon, g3.ell_ht) == fl and ((g3.orth_ht is None) if nv is None else (g3.orth_ht is not None and abs(g3.orth_ht - (fl[2] - nv)) < 1e-9))
            if not ok:
                r1['failures'].append(dict(input=dict(inp, nval=nv), what='object conversion disagrees with the functional API / heights not carried'))
        except Exception as ex:
            r1['failures'].append(dict(input=inp, what='exception: %s: %s' % (type(ex).__name__, ex)))
        # notation pairs
        for src in NOT:
            for dst in NOT:
                r2['n'] += 1
                r2['keys'].add((k, item['seed'], src.__name__, dst.__name__))
                try:
                    g0 = cd.CoordGeo(lat, lon, eh, oh)
                    gs = g0 if src is float else g0.notation(src)
                    gd_ = gs.notation(dst)
                    dl = max(abs(dec(gd_.lat) - lat), abs(dec(gd_.lon) - lon)) * 3600
                    if dl > 1e-8 or gd_.ell_ht != eh or gd_.orth_ht != oh or type(gd_.lat) is not dst:
                        r2['failures'].append(dict(input=dict(inp, src=src.__name__, dst=dst.__name__), what='notation change altered the position/heights/type', arcsec=dl))
                except Exception as ex:
                    r2['failures'].append(dict(input=dict(inp, src=src.__name__, dst=dst.__name__), what='exception: %s: %s' % (type(ex).__name__, ex)))
        # chains
        if eh is None:
            continue
        r3['n'] += 1
        r3['keys'].add((k, item['seed']))
        cur = cd.CoordGeo(lat, lon, eh, oh)
        steps = []
        try:
            for _ in range(rng.randint(2, 8)):
                if isinstance(cur, cd.CoordGeo):
                    op = rng.choice(['cart', 'tm', 'notation'])
                    cur = cur.cart(e) if op == 'cart' else (cur.tm(e, p) if op == 'tm' else cur.notation(rng.choice(NOT)))
                elif isinstance(cur, cd.CoordCart):
                    op = rng.choice(['geo', 'tm'])
                    cur = cur.geo(e, rng.choice(NOT)) if op == 'geo' else cur.tm(e, p)
                else:
                    op = rng.choice(['geo', 'cart'])
                    cur = cur.geo(e, rng.choice(NOT)) if op == 'geo' else cur.cart(e)
                steps.append(op)
            end = cur if isinstance(cur, cd.CoordCart) else (cur.cart(e) if isinstance(cur, cd.CoordGeo) else cur.cart(e))
            x0, y0, z0 = cv.llh2xyz(lat, lon, eh, e)
            had_tm = 'tm' in steps          # a projected coordinate carries no Cartesian height information beyond ell_ht (kept)
            d = math.dist((end.xaxis, end.yaxis, end.zaxis), (x0, y0, z0))
            if d > 3e-4:
                r3['failures'].append(dict(input=dict(inp, steps=steps), what='closed chain does not return within 0.3 mm', distance_m=d))
        except Exception as ex:
            r3['failures'].append(dict(input=dict(inp, steps=steps), what='exception: %s: %s' % (type(ex).__name__, ex)))
    r1['samples'] = [dict(lat=-23.67, lon=133.88, ell_ht=0.0, orth_ht=None)]
    r2['samples'] = [dict(src='float', dst='float')]
    r3['samples'] = [dict(steps=['cart', 'tm', 'geo'])]
    return [r1, r2, r3]


def replay_case(check, inp):
    return dict(note='re-run ./check C15', input=inp)
