"""Layer B for C16 (bounded stand-in)."""
import random, math
import numpy as np
import mpmath as mp

RULES = {
    'C16.B.rotation': 'lat{+-90,0,...} x lon{0,+-90,+-180,+-360,...} + seeded random: R^T R = I and det = 1 to 1e-14, third column = ellipsoid normal; enu<->xyz inverse and length (1e-9 relative) for vectors up to 1e7 m',
    'C16.B.vcv': 'random symmetric PSD matrices (condition numbers 1..1e8, singular, diagonal, 3x1 columns): symmetry, eigenvalues (numpy eigvalsh), trace, round trip, relative 1e-9 of the largest eigenvalue',
    'C16.B.ellipse': 'same matrices: semi-axes = sqrt(eigenvalues of horizontal block) (numpy), major>=minor>=0, direction at the returned bearing is the major eigenvector; relative_error = ellipse of R^T(V1+V2-C12-C12^T)R',
    'C16.B.k_val95': 'all integer dof -5..200: selection rule; entries 1..120 equal scipy/mpmath two-sided 95% Student-t quantile rounded to 5 decimals',
}
EXHAUSTIVE = {'C16.B.k_val95'}


def chunks(tier, seed):
    n = 6 if tier == 'quick' else 32
    return [dict(seed=seed * 100 + i, n=150 if tier == 'quick' else 600, first=(i == 0)) for i in range(n)]


def _psd(rng, kind):
    Q, _ = np.linalg.qr(np.array([[rng.gauss(0, 1) for _ in range(3)] for _ in range(3)]))
    if kind == 'diag':
        return np.diag([rng.uniform(0, 1), rng.uniform(0, 1), rng.uniform(0, 1)])
    if kind in ('singular', 'rank1'):
        # exactly PSD singular matrices: Gram matrices of small-integer vectors with a dyadic scale (every product exact)
        vs = [np.array([float(rng.randint(-40, 40)) for _ in range(3)]) for _ in range(2 if kind == 'singular' else 1)]
        M = sum(np.outer(v, v) for v in vs) * 2.0 ** rng.randint(-30, 4)
        return M
    else:
        c = 10 ** rng.uniform(0, 8)
        ev = [1.0, 1.0 / math.sqrt(c), 1.0 / c]
    s = 10 ** rng.uniform(-8, 2)
    M = Q @ np.diag(ev) @ Q.T * s
    return (M + M.T) / 2


def work(item):
    import geodepy.statistics as st, geodepy.geodesy as gd
    rng = random.Random(item['seed'])
    out = []
    r = dict(check='C16.B.rotation', function='statistics.rotation_matrix', n=0, keys=set(), failures=[], samples=[])
    pts = [(la, lo) for la in (90.0, -90.0, 0.0, 45.0, -33.3, 89.9999999) for lo in (0.0, 90.0, -90.0, 180.0, -180.0, 360.0, -360.0, 270.0, 12.3)] if item['first'] else []
    pts += [(rng.uniform(-90, 90), rng.uniform(-360, 360)) for _ in range(item['n'])]
    for la, lo in pts:
        R = st.rotation_matrix(la, lo)
        inp = dict(lat=la, lon=lo)
        r['n'] += 1
        r['keys'].add((la, lo))
        nrm = np.array([math.cos(math.radians(la)) * math.cos(math.radians(lo)), math.cos(math.radians(la)) * math.sin(math.radians(lo)), math.sin(math.radians(la))])
        if np.abs(R.T @ R - np.eye(3)).max() > 1e-14 or abs(np.linalg.det(R) - 1) > 1e-14 or np.abs(R[:, 2] - nrm).max() > 1e-15:
            r['failures'].append(dict(input=inp, what='rotation matrix not orthonormal/right-handed/up != normal'))
        v = [rng.uniform(-1, 1) * 10 ** rng.uniform(-3, 7) for _ in range(3)]
        x = gd.enu2xyz(la, lo, *v)
        b = gd.xyz2enu(la, lo, *x)
        L = math.sqrt(sum(t * t for t in v))
        if max(abs(p - q) for p, q in zip(b, v)) > 1e-9 * L + 1e-300 or abs(math.sqrt(sum(t * t for t in x)) - L) > 1e-9 * L:
            r['failures'].append(dict(input=dict(lat=la, lon=lo, enu=v), what='enu2xyz/xyz2enu not inverse or length changed'))
    r['samples'] = [dict(lat=pts[0][0], lon=pts[0][1])]
    out.append(r)
    r = dict(check='C16.B.vcv', function='statistics.vcv_cart2local', n=0, keys=set(), failures=[], samples=[])
    r2 = dict(check='C16.B.ellipse', function='statistics.error_ellipse', n=0, keys=set(), failures=[], samples=[])
    for k in range(item['n']):
        kind = ('cond', 'diag', 'singular', 'rank1')[k % 4]
        V = _psd(rng, kind)
        la, lo = rng.choice([90.0, -90.0, 0.0, rng.uniform(-90, 90)]), rng.uniform(-360, 360)
        inp = dict(lat=la, lon=lo, kind=kind, V=V.tolist())
        scale = max(np.linalg.eigvalsh(V).max(), 1e-300)
        for f, g in ((st.vcv_cart2local, st.vcv_local2cart), (st.vcv_local2cart, st.vcv_cart2local)):
            W = f(V, la, lo)
            r['n'] += 1
            r['keys'].add((la, lo, kind, k, f.__name__))
            bad = (np.abs(W - W.T).max() > 1e-12 * scale or np.abs(np.linalg.eigvalsh((W + W.T) / 2) - np.linalg.eigvalsh(V)).max() > 1e-9 * scale
                   or abs(np.trace(W) - np.trace(V)) > 1e-12 * scale or np.abs(g(W, la, lo) - V).max() > 1e-12 * scale)
            if bad:
                r['failures'].append(dict(input=inp, what=f.__name__ + ': symmetry/eigenvalues/trace/round trip'))
            col = np.array([[V[0, 0]], [V[1, 1]], [V[2, 2]]])
            Wc = f(col, la, lo)
            R = st.rotation_matrix(la, lo)
            D = np.diag(col[:, 0])
            full = (R.T @ D @ R) if f is st.vcv_cart2local else (R @ D @ R.T)
            if Wc.shape != (3, 1) or np.abs(Wc[:, 0] - np.diag(full)).max() > 1e-12 * scale:
                r['failures'].append(dict(input=inp, what=f.__name__ + ': 3x1 column case'))
        # error ellipse (precondition: the horizontal block is PSD in exact arithmetic, not merely up to float noise)
        from fractions import Fraction as F
        pF, qF, rF = F(V[0, 0]), F(V[1, 1]), F(V[0, 1])
        if pF < 0 or qF < 0 or pF * qF - rF * rF < 0:
            continue
        a, b, ori = st.error_ellipse(V)
        ev, evec = np.linalg.eigh(V[:2, :2])
        r2['n'] += 1
        r2['keys'].add((kind, k, item['seed']))
        tol = 1e-7 * math.sqrt(scale)
        ok = a >= b >= 0 and abs(a - math.sqrt(max(ev[1], 0))) <= tol and abs(b * b - max(ev[0], 0)) <= 1e-9 * scale
        d = np.array([math.sin(math.radians(ori)), math.cos(math.radians(ori))])      # (east, north) at bearing ori
        if ev[1] - ev[0] > 1e-6 * scale:
            ok = ok and np.abs(V[:2, :2] @ d - ev[1] * d).max() <= 1e-6 * scale
        if not ok:
            r2['failures'].append(dict(input=inp, what='error ellipse axes/orientation disagree with eigen-decomposition', got=[a, b, ori], eig=ev.tolist()))
        V2 = _psd(rng, 'cond')
        Cc = 0.3 * np.array([[rng.uniform(-1, 1) for _ in range(3)] for _ in range(3)]) * math.sqrt(scale * np.linalg.eigvalsh(V2).max())
        Sm = V + V2 - Cc - Cc.T
        if np.linalg.eigvalsh(Sm).min() > 1e-9 * np.abs(Sm).max():
            R = st.rotation_matrix(la, lo)
            ref = st.error_ellipse(R.T @ Sm @ R)
            got = st.relative_error(la, lo, V, V2, Cc)
            r2['n'] += 1
            r2['keys'].add(('rel', k, item['seed']))
            sc2 = math.sqrt(np.abs(Sm).max())
            if abs(got[0] - ref[0]) > 1e-9 * sc2 or abs(got[1] - ref[1]) > 1e-7 * sc2 or abs(got[3] - math.sqrt((R.T @ Sm @ R)[2, 2])) > 1e-9 * sc2 or (
                    abs(((got[2] - ref[2] + 90) % 180) - 90) > 1e-6 and ref[0] - ref[1] > 1e-3 * sc2):
                r2['failures'].append(dict(input=dict(lat=la, lon=lo), what='relative_error differs from the ellipse of R^T(V1+V2-C12-C12^T)R', got=list(got), ref=list(ref)))
    r['samples'] = [dict(kind='cond', lat=0.0)]
    r2['samples'] = [dict(kind='singular')]
    out += [r, r2]
    if item['first']:
        r3 = dict(check='C16.B.k_val95', function='statistics.k_val95', n=0, keys=set(), failures=[], samples=[dict(dof=1), dict(dof=121)])
        mp.mp.dps = 30
        from scipy import stats
        for dof in range(-5, 201):
            k = st.k_val95(dof)
            r3['n'] += 1
            r3['keys'].add(dof)
            if dof > 120:
                ok = k == 1.96
            else:
                ok = abs(k - round(float(stats.t.ppf(0.975, max(dof, 1))), 5)) < 1e-9
            if not ok:
                r3['failures'].append(dict(input=dict(dof=dof), what='coverage factor differs from the Student-t quantile', got=k))
        out.append(r3)
    return out


def replay_case(check, inp):
    import geodepy.statistics as st
    if check and check.startswith('C16.B.k_val95'):
        from scipy import stats
        dof = inp['dof']
        k = st.k_val95(dof)
        ok = (k == 1.96) if dof > 120 else abs(k - round(float(stats.t.ppf(0.975, max(dof, 1))), 5)) < 1e-9
        return None if ok else dict(input=inp, got=k)
    return dict(note='re-run ./check C16 to reproduce', input=inp)
