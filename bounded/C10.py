"""Layer B for C10 (bounded stand-in): scale factor and convergence vs the complex derivative of the exact projection."""
import random
import mpmath as mp
from spec import tm as TM
from bounded.C01 import ELLS, ISG_ZONES, _proj, _cm

RULES = {
    'C10.B.psf_gridconv': 'lattice over the four quadrants about equator and central meridian, points on both axes, |lon-cm| up to 30 deg, UTM x 8 ellipsoids, ISG x ANS, random projections: psf vs |d(E,N)/dphi|/rho of the exact projection (2e-8), convergence vs atan2(dE/dphi, dN/dphi) (1e-9 deg, sign: grid bearing = azimuth + convergence)',
    'C10.B.forward_inverse_agree': 'grid2geo of the forward result: its psf/convergence vs the oracle at the position it returns (2e-8, 1e-9 deg) and vs the forward values (1.1e-8; 1e-9 deg + the effect of the 0.1 mm rounding of the grid coordinates handed over, 7.1e-5 m * tan(lat)/nu)',
}


def chunks(tier, seed):
    rng = random.Random(seed)
    ells = ELLS + [(rng.uniform(6.3e6, 6.4e6), rng.uniform(150, 400)) for _ in range(2)]
    out = []
    for i, e in enumerate(ells):
        out.append(dict(ell=e, kind='utm', seed=seed * 31 + i, n=40 if tier == 'quick' else 800))
        out.append(dict(ell=e, kind='rand', seed=seed * 37 + i, n=25 if tier == 'quick' else 500))
    out.append(dict(ell=(6378160, 298.25), kind='isg', seed=seed, n=40 if tier == 'quick' else 800))
    return out


def check_point(cv, C, lat, lon, zone, e, prj):
    isg = prj is C.isg
    r = cv.geo2grid(lat, lon, zone, e, prj)
    cm = _cm(prj, r[1], isg)
    k, g = TM.psf_gc_exact(lat, lon, cm, e.semimaj, e.inversef, prj.cmscale)
    inp = dict(lat=lat, lon=lon, zone=zone, a=e.semimaj, invf=e.inversef, prj=[prj.falseeast, prj.falsenorth, prj.cmscale, prj.zonewidth, prj.initialcm], isg=isg)
    f1 = None
    if abs(mp.mpf(r[4]) - k) > mp.mpf('2e-8') or abs(mp.mpf(r[5]) - g) > mp.mpf('1e-9'):
        f1 = dict(input=inp, what='point scale factor / grid convergence differ from the exact projection of the requested ellipsoid and projection',
                  observed=[r[4], r[5]], expected=[float(k), float(g)])
    f2 = None
    try:
        import math
        inv = cv.grid2geo(r[1], r[2], r[3], r[0], e, prj)
        # the inverse receives the forward result ROUNDED to 0.1 mm, i.e. a point up to 0.071 mm away: the convergence of
        # that point differs by up to 7.1e-5 m * d(gc)/dE ~ tan(lat)/(nu k0) (4e-9 deg at 84 deg); the inverse's own values
        # are judged against the oracle at the position it returns
        allow = 1e-9 + 7.1e-5 * math.tan(math.radians(min(abs(lat), 84.0))) / 6.3e6 * 57.3 * 1.1
        k2, g2 = TM.psf_gc_exact(inv[0], inv[1], cm, e.semimaj, e.inversef, prj.cmscale)
        if abs(mp.mpf(inv[2]) - k2) > mp.mpf('2e-8') or abs(mp.mpf(inv[3]) - g2) > mp.mpf('1e-9') or abs(inv[2] - r[4]) > 1.1e-8 or abs(inv[3] - r[5]) > allow:
            f2 = dict(input=inp, what='inverse conversion reports different psf/convergence for the same point', forward=[r[4], r[5]], inverse=[inv[2], inv[3]])
    except ValueError:
        pass
    return f1, f2, inp


def work(item):
    import warnings
    warnings.simplefilter('ignore')
    import geodepy.convert as cv, geodepy.constants as C
    rng = random.Random(item['seed'])
    e = C.Ellipsoid(*item['ell'])
    prj = _proj(C, item['kind'], rng)
    isg = prj is C.isg
    zones = ISG_ZONES if isg else ([1, 31, 55, 60] if item['kind'] == 'utm' else [2, 9, 40])
    pts = []
    for z in zones:
        cm = _cm(prj, z, isg)
        if not -180 <= cm <= 180:
            continue
        for la in (-60.0, -1e-6, 0.0, 1e-6, 45.0, 83.5, -79.5):
            for dl in (0.0, 2.5, -2.5, 1e-7, -1e-7, 29.0, -29.0):
                lo_ = cm + dl
                if not -180 <= lo_ < 180 and not isg:
                    lo_ = (lo_ + 180.0) % 360.0 - 180.0          # a zone next to the antimeridian: the same meridian written in [-180, 180)
                if -180 <= lo_ <= 180:
                    pts.append((la, lo_, z))
    pts = rng.sample(pts, min(len(pts), item['n']))
    for _ in range(item['n']):
        z = rng.choice(zones)
        cm = _cm(prj, z, isg)
        lo = cm + rng.choice([rng.uniform(-3, 3), rng.uniform(-30, 30)])
        if not -180 <= lo < 180 and not isg:
            lo = (lo + 180.0) % 360.0 - 180.0
        if -180 <= lo <= 180 and -180 <= cm <= 180:
            pts.append((rng.uniform(-80, 84), lo, z))
    r1 = dict(check='C10.B.psf_gridconv', function='convert.psfandgridconv', n=0, keys=set(), failures=[], samples=[])
    r2 = dict(check='C10.B.forward_inverse_agree', function='convert.grid2geo', n=0, keys=set(), failures=[], samples=[])
    for la, lo, z in pts:
        f1, f2, inp = check_point(cv, C, la, lo, z, e, prj)
        key = (la, lo, z, e.semimaj, e.inversef, item['kind'])
        r1['n'] += 1
        r1['keys'].add(key)
        r2['n'] += 1
        r2['keys'].add(key)
        if f1:
            r1['failures'].append(f1)
        if f2:
            r2['failures'].append(f2)
    r1['samples'] = [dict(lat=pts[0][0], lon=pts[0][1], zone=pts[0][2], prj=item['kind'], a=e.semimaj, invf=e.inversef)]
    r2['samples'] = r1['samples']
    return [r1, r2]


def replay_case(check, inp):
    import warnings
    warnings.simplefilter('ignore')
    import geodepy.convert as cv, geodepy.constants as C
    prj = C.isg if inp.get('isg') else C.Projection(*inp['prj'])
    f1, f2, _ = check_point(cv, C, inp['lat'], inp['lon'], inp['zone'], C.Ellipsoid(inp['a'], inp['invf']), prj)
    return f1 or f2
