"""Layer B for C09 (bounded stand-in): random call histories, repetition, threads; deep snapshots of constants and arguments."""
import random, math, copy, datetime, threading, os, sys, json, subprocess, pickle, base64
import numpy as np

RULES = {
    'C09.B.histories': 'sequences of 1..50 calls drawn from the public API (convert, geodesy, statistics, survey, transform, constants operators) with random valid arguments, with and without covariance input, both directions of every transformation: every call repeated later in the same history gives a bit-identical result; a deep snapshot of every module-level constant is unchanged afterwards; every mutable argument (list, ndarray, Transformation) is unchanged after the call',
    'C09.B.fresh_process_order': 'every history is re-run in a fresh interpreter in REVERSED order (a different set of earlier calls for each call): the first result of every distinct call has the same repr, bit for bit, in both processes - so no result depends on which other library calls were made before it',
    'C09.B.threads': 'the same sequences split across 2..8 threads: every result equals the single-thread result bit for bit and the constants are unchanged',
}


def chunks(tier, seed):
    return [dict(seed=seed * 53 + i, n=6 if tier == 'quick' else 60) for i in range(8)]


def snap_constants(C):
    out = {}
    for k, v in vars(C).items():
        if isinstance(v, (C.Ellipsoid, C.Projection, C.Transformation, C.TransformationSD)):
            d = dict(vars(v))
            if 'tf_sd' in d:
                d['tf_sd'] = id(d['tf_sd'])
            out[k] = d
    return out


def same(a, b):
    if isinstance(a, np.ndarray) or isinstance(b, np.ndarray):
        return isinstance(a, np.ndarray) and isinstance(b, np.ndarray) and a.shape == b.shape and np.array_equal(a, b, equal_nan=True)
    if isinstance(a, (tuple, list)):
        return isinstance(b, (tuple, list)) and len(a) == len(b) and all(same(x, y) for x, y in zip(a, b))
    if hasattr(a, '__dict__') and not isinstance(a, type):
        return type(a) is type(b) and all(same(vars(a)[k], vars(b).get(k)) for k in vars(a))
    if isinstance(a, float) and isinstance(b, float) and a != a and b != b:
        return True
    return a == b


def make_calls(rng, C, cv, gd, st, sv, tr):
    """returns a list of (label, function, args-factory) - the factory builds fresh copies of mutable arguments"""
    dated = [v for v in vars(C).values() if isinstance(v, C.Transformation) and isinstance(v.ref_epoch, datetime.date)]
    sd7 = [v for v in vars(C).values() if isinstance(v, C.Transformation) and isinstance(v.tf_sd, C.TransformationSD) and v.tf_sd.sd_rx is not None and v.tf_sd.sd_tx is not None]
    sd14 = [v for v in dated if isinstance(v.tf_sd, C.TransformationSD) and v.tf_sd.sd_d_tx is not None and v.tf_sd.sd_tx is not None]
    calls = []
    eps = [datetime.date(rng.randint(1990, 2040), rng.randint(1, 12), rng.randint(1, 28)) for _ in range(3)]     # few epochs per history: different sets meet at one epoch
    for _ in range(60):
        lat, lon = rng.uniform(-79, 83), rng.uniform(-179, 179)
        e = rng.choice([C.grs80, C.ans, C.wgs84, C.intl24])
        X = [rng.uniform(-6e6, 6e6) for _ in range(3)]
        G = np.array([[rng.gauss(0, 1) for _ in range(3)] for _ in range(3)])
        V = G @ G.T * 1e-4
        ep = rng.choice(eps)
        k = rng.randint(0, 17)
        if k == 0:
            calls.append(('geo2grid', cv.geo2grid, lambda lat=lat, lon=lon, e=e: (lat, lon, 0, e)))
        elif k == 1:
            ee = 300000.0 + rng.random()
            calls.append(('grid2geo', cv.grid2geo, lambda ee=ee: (55, ee, 6000000.0, 'south')))
        elif k == 2:
            calls.append(('llh2xyz', cv.llh2xyz, lambda lat=lat, lon=lon, e=e: (lat, lon, 100.0, e)))
        elif k == 3:
            calls.append(('xyz2llh', cv.xyz2llh, lambda X=X, e=e: (X[0], X[1], X[2], e)))
        elif k == 4:
            calls.append(('vincinv', gd.vincinv, lambda lat=lat, lon=lon, e=e: (lat, lon, lat * 0.9 + 1, lon + 2.5, e)))
        elif k == 5:
            calls.append(('vincdir', gd.vincdir, lambda lat=lat, lon=lon, e=e: (lat, lon, 123.4, 54321.0, e)))
        elif k == 6:
            if rng.random() < 0.3:
                calls.append(('vcv_local2cart[null]', st.vcv_local2cart, lambda lat=lat, lon=lon: (np.zeros((3, 3)), lat, lon)))
            else:
                calls.append(('vcv_cart2local', st.vcv_cart2local, lambda V=V, lat=lat, lon=lon: (V.copy(), lat, lon)))
        elif k == 7:
            if rng.random() < 0.4:          # a constrained station: null covariance for station 1 and null cross-covariance
                calls.append(('relative_error[null var1]', st.relative_error, lambda V=V, lat=lat, lon=lon: (lat, lon, np.zeros((3, 3)), V.copy() * 2, np.zeros((3, 3)))))
            else:
                calls.append(('relative_error', st.relative_error, lambda V=V, lat=lat, lon=lon: (lat, lon, V.copy(), V.copy() * 2, V.copy() * 0.1)))
        elif k == 8:
            t = rng.choice(sd7)
            calls.append(('conform7+vcv', tr.conform7, lambda X=X, t=t, V=V: (X[0], X[1], X[2], t, V.copy())))
        elif k == 9:
            t = rng.choice(sd14 or dated)
            calls.append(('conform14+vcv', tr.conform14, lambda X=X, t=t, V=V, ep=ep: (X[0], X[1], X[2], ep, t, V.copy())))
        elif k == 10:
            t = rng.choice(dated)
            calls.append(('conform14-neg', tr.conform14, lambda X=X, t=t, ep=ep: (X[0], X[1], X[2], ep, -t)))
        elif k == 11:
            calls.append(('mga94_to_mga2020', tr.transform_mga94_to_mga2020, lambda V=V: (53, 386352.3979, 7381850.7689, 587.5814, V.copy())))
        elif k == 12:
            calls.append(('mga2020_to_mga94', tr.transform_mga2020_to_mga94, lambda V=V: (53, 386353.2343, 7381852.2986, 587.5814, V.copy())))
        elif k == 13:
            calls.append(('atrf2014_to_gda2020', tr.transform_atrf2014_to_gda2020, lambda X=X, ep=ep, V=V: (X[0], X[1], X[2], ep, V.copy())))
        elif k == 14:
            calls.append(('gda2020_to_atrf2014', tr.transform_gda2020_to_atrf2014, lambda X=X, ep=ep, V=V: (X[0], X[1], X[2], ep, V.copy())))
        elif k == 15:
            vl = [rng.uniform(85, 95) for _ in range(rng.randint(3, 7))]
            calls.append(('precise_inst_ht', sv.precise_inst_ht, lambda vl=vl: (list(vl), 0.1, 0.2)))
        elif k == 16:
            t = rng.choice(dated)
            calls.append(('Transformation+date', lambda t, ep: t + ep, lambda t=t, ep=ep: (t, ep)))
        else:
            calls.append(('vincinv_utm', gd.vincinv_utm, lambda: (55, 300000.0, 6000000.0, 55, 310000.0, 6010000.0)))
    return calls


def build_history(rng, mods):
    calls = make_calls(rng, *mods)
    length = rng.randint(1, 50)
    hist = [rng.choice(calls) for _ in range(length)]
    hist += [rng.choice(hist) for _ in range(rng.randint(0, 10))]          # repeated identical calls
    return hist


def rep(res):
    if isinstance(res, np.ndarray):
        return 'arr' + repr(res.tolist())
    if isinstance(res, (tuple, list)):
        return '(' + ','.join(rep(x) for x in res) + ')'
    if hasattr(res, '__dict__') and not isinstance(res, type):
        return type(res).__name__ + rep(sorted((k, rep(v)) for k, v in vars(res).items()))
    return repr(res)


def child_main():
    """fresh interpreter: rebuild the history from the RNG state, run it in reversed order, print the first result of every distinct call"""
    import warnings
    warnings.simplefilter('ignore')
    state = pickle.loads(base64.b64decode(sys.stdin.read()))
    import geodepy.constants as C, geodepy.convert as cv, geodepy.geodesy as gd, geodepy.statistics as st, geodepy.survey as sv, geodepy.transform as tr
    rng = random.Random()
    rng.setstate(state)
    hist = build_history(rng, (C, cv, gd, st, sv, tr))
    out = {}
    for idx in reversed(range(len(hist))):
        label, fn, mk = hist[idx]
        key = '%s#%d' % (label, [i for i, h in enumerate(hist) if h[2] is mk][0])
        if key in out:
            continue
        try:
            res = fn(*mk())
        except Exception as ex:
            res = ('EXC', type(ex).__name__, str(ex))
        out[key] = rep(res)
    print('RESULT ' + json.dumps(out))


def fresh_reversed(state):
    repo = os.environ.get('VERIF_REPO', '/repo')
    here = os.path.dirname(os.path.dirname(os.path.abspath(__file__)))
    env = dict(os.environ, PYTHONPATH=repo + os.pathsep + here, PYTHONDONTWRITEBYTECODE='1')
    r = subprocess.run([sys.executable, '-c', 'from bounded import C09; C09.child_main()'], input=base64.b64encode(pickle.dumps(state)).decode(), capture_output=True, text=True, env=env, timeout=600)
    for l in r.stdout.split('\n'):
        if l.startswith('RESULT '):
            return json.loads(l[7:])
    raise RuntimeError('fresh-process child failed: %s' % (r.stderr[-800:],))


def work(item):
    import warnings
    warnings.simplefilter('ignore')
    import geodepy.constants as C, geodepy.convert as cv, geodepy.geodesy as gd, geodepy.statistics as st, geodepy.survey as sv, geodepy.transform as tr
    rng = random.Random(item['seed'])
    r3 = dict(check='C09.B.fresh_process_order', function='public API', n=0, keys=set(), failures=[], samples=[])
    r1 = dict(check='C09.B.histories', function='public API', n=0, keys=set(), failures=[], samples=[])
    r2 = dict(check='C09.B.threads', function='public API', n=0, keys=set(), failures=[], samples=[])
    base = snap_constants(C)
    for h in range(item['n']):
        state0 = rng.getstate()
        hist = build_history(rng, (C, cv, gd, st, sv, tr))
        first = {}
        first_rep = {}
        for idx, (label, fn, mk) in enumerate(hist):
            args = mk()
            keep = copy.deepcopy([a for a in args if isinstance(a, (list, np.ndarray))])
            tsnap = [(a, dict(vars(a)), dict(vars(a.tf_sd)) if getattr(a, 'tf_sd', None) is not None else None) for a in args if isinstance(a, C.Transformation)]
            try:
                res = fn(*args)
            except Exception as ex:
                res = ('EXC', type(ex).__name__, str(ex))
            r1['n'] += 1
            r1['keys'].add((item['seed'], h, idx))
            now = [a for a in args if isinstance(a, (list, np.ndarray))]
            if not all(same(x, y) for x, y in zip(keep, now)):
                r1['failures'].append(dict(input=dict(call=label, history_index=idx, seed=item['seed'], history=h), what='a caller-owned list/array argument was modified'))
            for a, d0, s0 in tsnap:
                if not same(dict(vars(a)), d0) or (s0 is not None and dict(vars(a.tf_sd)) != s0):
                    r1['failures'].append(dict(input=dict(call=label, history_index=idx, seed=item['seed'], history=h), what='a Transformation argument (or its uncertainty object) was modified'))
            key = (label, id(mk))
            if key in first:
                if not same(first[key], res):
                    r1['failures'].append(dict(input=dict(call=label, history_index=idx, history_length=len(hist), seed=item['seed'], history=h), what='repeated identical call returned a different result', first=repr(first[key])[:300], later=repr(res)[:300]))
            else:
                first[key] = res
                first_rep['%s#%d' % (label, [i for i, h_ in enumerate(hist) if h_[2] is mk][0])] = rep(res)
        other = fresh_reversed(state0)
        for k_, v_ in first_rep.items():
            r3['n'] += 1
            r3['keys'].add((item['seed'], h, k_))
            if other.get(k_) != v_:
                r3['failures'].append(dict(input=dict(call=k_, seed=item['seed'], history=h, history_labels=[l for l, _, _ in hist][:50]),
                                           what='first result of the call in this history differs from its result in a fresh process that ran the history in reversed order',
                                           here=v_[:300], fresh_reversed=str(other.get(k_))[:300]))
        if snap_constants(C) != base:
            after = snap_constants(C)
            ch = [k for k in base if base[k] != after.get(k)]
            r1['failures'].append(dict(input=dict(history=[l for l, _, _ in hist][:20]), what='module-level constants changed: %r' % ch[:5]))
            for k in ch:           # restore so that later histories are judged on their own
                vars(getattr(C, k)).update({kk: vv for kk, vv in base[k].items() if kk != 'tf_sd'})
        # threads
        nthreads = rng.randint(2, 8)
        jobs = [(i, hist[i]) for i in range(len(hist))]
        single = {}
        for i, (label, fn, mk) in jobs:
            try:
                single[i] = fn(*mk())
            except Exception as ex:
                single[i] = ('EXC', type(ex).__name__, str(ex))
        multi = {}

        def worker(part):
            for i, (label, fn, mk) in part:
                try:
                    multi[i] = fn(*mk())
                except Exception as ex:
                    multi[i] = ('EXC', type(ex).__name__, str(ex))
        ths = [threading.Thread(target=worker, args=(jobs[t::nthreads],)) for t in range(nthreads)]
        for t in ths:
            t.start()
        for t in ths:
            t.join()
        r2['n'] += len(jobs)
        r2['keys'].add((item['seed'], h, nthreads))
        r2['keys'].add((item['seed'], h, 'x'))
        for i in single:
            if not same(single[i], multi.get(i)):
                r2['failures'].append(dict(input=dict(call=jobs[i][1][0], threads=nthreads), what='result under %d threads differs from the single-thread result' % nthreads))
                break
        if snap_constants(C) != base:
            r2['failures'].append(dict(input=dict(threads=nthreads), what='module-level constants changed under threads'))
    r1['samples'] = [dict(history=['conform14+vcv', 'conform14+vcv', 'mga94_to_mga2020'])]
    r2['samples'] = [dict(threads=4)]
    r3['samples'] = [dict(history_length=len(hist), distinct_calls=len(first_rep))]
    return [r1, r2, r3]


def replay_case(check, inp):
    """histories are regenerated from the recorded seed and re-run on the current tree"""
    if isinstance(inp, dict) and 'seed' in inp and 'history' in inp:
        repo = os.environ.get('VERIF_REPO', '/repo')
        if repo not in sys.path:
            sys.path.insert(0, repo)
        res = work(dict(seed=inp['seed'], n=int(inp['history']) + 1))
        for r in res:
            if r['check'] == check:
                f = [x for x in r['failures'] if x.get('input', {}).get('history', inp['history']) == inp['history']]
                if f:
                    return f[0]
        return None
    return dict(note='this record carries no seed: re-run ./check C09', input=inp)
