"""Layer B for C05 (bounded stand-in): Vincenty inverse judged through the exact direct geodesic; swap / shift relations."""
import random, math
import mpmath as mp
from spec.geodesic import direct_exact, ground_offset_m
from bounded.C04 import ELLS

RULES = {
    'C05.B.inverse_exact': 'point pairs (spherical separation <= 178 deg; 1 mm .. 19 800 km; same meridian / parallel, equatorial, polar, across +-180, nearly antipodal low-latitude pairs of 172..178 deg of arc) x 4 shipped + Earth-like random ellipsoids: following the exact geodesic from P1 with the returned distance and azimuth arrives within 2 mm of P2; reverse azimuth = exact arrival azimuth + 180 within 1e-8 deg + angle of 2 mm at the distance from the nearer pole',
    'C05.B.swap_shift': 'same pairs: swapping the points / adding +14, +360, -360 deg to both longitudes changes the distance by <= 1 mm and each azimuth by no more than moves the far end by 1 mm; coincident points give zero distance',
}


def chunks(tier, seed):
    rng = random.Random(seed)
    ells = ELLS + [(rng.uniform(6.3e6, 6.4e6), rng.uniform(280, 320)) for _ in range(4)]
    n = 100 if tier == 'quick' else 2500
    return [dict(ell=e, seed=seed * 211 + i * 16 + k, n=n // 2, first=(k == 0)) for i, e in enumerate(ells) for k in range(2)]


def sep_deg(la1, lo1, la2, lo2):
    p1, p2, dl = math.radians(la1), math.radians(la2), math.radians(lo2 - lo1)
    c = math.sin(p1) * math.sin(p2) + math.cos(p1) * math.cos(p2) * math.cos(dl)
    return math.degrees(math.acos(max(-1.0, min(1.0, c))))


def az_tol(s, a):
    """angle (deg) that moves the far end of a line of length s by 1 mm"""
    R = float(a)
    lever = R * abs(math.sin(s / R))
    return 1e-9 + (math.degrees(1e-3 / lever) if lever > 1e-3 else 360.0)


def adiff(x, y):
    return abs((x - y + 540) % 360 - 180)


def check_pair(gd, C, la1, lo1, la2, lo2, a, invf):
    e = C.Ellipsoid(a, invf)
    inp = dict(lat1=la1, lon1=lo1, lat2=la2, lon2=lo2, a=a, invf=invf)
    s, a12, a21 = gd.vincinv(la1, lo1, la2, lo2, e)
    f1 = f2 = None
    if s == 0 and a12 == 0 and a21 == 0:
        if ground_offset_m(la1, lo1, la2, lo2, a, invf) > 2e-3:
            f1 = dict(input=inp, what='zero distance returned for distinct points')
        return f1, f2, inp
    x = direct_exact(la1, lo1, a12, s, a, invf)
    d = ground_offset_m(la2, lo2, x[0], x[1], a, invf)
    if d > mp.mpf('2e-3'):
        f1 = dict(input=inp, what='following the exact geodesic with the returned distance/azimuth misses the second point by more than 2 mm', miss_m=float(d), got=[s, a12, a21])
    else:
        pole = float(a) * max(math.cos(math.radians(la2)), 1e-12)
        tol = 1e-8 + 6e-10 + math.degrees(2e-3 / pole)
        if adiff(a21, float(x[2]) + 180) > tol:
            inp = dict(inp, sep_m=s, diff_deg=adiff(a21, float(x[2]) + 180), kind='reverse_azimuth')
            f1 = dict(input=inp, what='reverse azimuth differs from the exact arrival azimuth + 180', diff_deg=adiff(a21, float(x[2]) + 180), tol=tol, got=[s, a12, a21])
    # swap and shifts
    t = az_tol(s, a)
    s2, b12, b21 = gd.vincinv(la2, lo2, la1, lo1, e)
    if abs(s2 - s) > 1e-3 + 1e-9 or adiff(b12, a21) > t or adiff(b21, a12) > t:
        f2 = dict(input=inp, what='swapping the points changes distance/azimuths', orig=[s, a12, a21], swapped=[s2, b12, b21], az_tol=t)
    for c in (14.0, 360.0, -360.0):
        s3, c12, c21 = gd.vincinv(la1, lo1 + c, la2, lo2 + c, e)
        if abs(s3 - s) > 1e-3 + 1e-9 or adiff(c12, a12) > t or adiff(c21, a21) > t:
            f2 = dict(input=dict(inp, shift=c), what='common longitude offset changes distance/azimuths', orig=[s, a12, a21], shifted=[s3, c12, c21], az_tol=t)
    return f1, f2, inp


def work(item):
    import geodepy.geodesy as gd, geodepy.constants as C
    rng = random.Random(item['seed'])
    a, invf = item['ell']
    pairs = []
    if item['first']:
        pairs += [(0.0, 0.0, 0.0, 90.0), (0.0, 10.0, 0.0, 170.0), (10.0, 20.0, -30.0, 20.0), (45.0, -170.0, 45.0, 170.0), (90.0, 0.0, 20.0, 55.0), (-90.0, 30.0, 89.0, 100.0),
                  (10.0, 179.9, 12.0, -179.9), (-33.0, 151.0, -33.0, 151.0), (-33.0, 151.0, -33.0, 151.0 + 1e-8), (60.0, 0.0, 60.0 + 1e-8, 0.0), (0.0, 0.0, 0.5, 177.0),
                  (89.9, 10.0, 89.9, -170.0), (-37.95103342, 144.42486789, -37.65282114, 143.92649553)]
    if item['first']:
        pairs += [(0.0, 0.0, 1.9, 178.9), (5.0, -10.0, -4.0, 167.5), (0.3, 20.0, 0.2, -162.3), (-2.0, 100.0, 3.5, -77.4)]
    for _ in range(max(2, item['n'] // 8)):
        # nearly antipodal low-latitude pairs (172..178 deg of arc): the lambda iteration needs its largest number of passes here
        la1, lo1 = rng.uniform(-6, 6), rng.uniform(-180, 180)
        la2 = -la1 + rng.uniform(-2.5, 2.5)
        lo2 = (lo1 + 180 - rng.choice([1, -1]) * rng.uniform(2.1, 8.0) + 180) % 360 - 180
        pairs.append((la1, lo1, la2, lo2))
    for _ in range(item['n']):
        la1, lo1 = rng.choice([rng.uniform(-90, 90), 0.0]), rng.uniform(-180, 180)
        if rng.random() < 0.5:
            s = 10 ** rng.uniform(-3, math.log10(1.98e7))
            x = direct_exact(la1, lo1, rng.uniform(0, 360), s, a, invf, dps=20)
            la2, lo2 = float(x[0]), (float(x[1]) + 180) % 360 - 180
        else:
            la2, lo2 = rng.uniform(-90, 90), rng.uniform(-180, 180)
        pairs.append((la1, lo1, la2, lo2))
    r1 = dict(check='C05.B.inverse_exact', function='geodesy.vincinv', n=0, keys=set(), failures=[], samples=[])
    r2 = dict(check='C05.B.swap_shift', function='geodesy.vincinv', n=0, keys=set(), failures=[], samples=[])
    for la1, lo1, la2, lo2 in pairs:
        if sep_deg(la1, lo1, la2, lo2) > 178:
            continue
        f1, f2, inp = check_pair(gd, C, la1, lo1, la2, lo2, a, invf)
        k = (la1, lo1, la2, lo2, a, invf)
        r1['n'] += 1
        r1['keys'].add(k)
        r2['n'] += 4
        r2['keys'].add(k)
        if f1:
            r1['failures'].append(f1)
        if f2:
            r2['failures'].append(f2)
    r1['samples'] = [dict(lat1=pairs[0][0], lon1=pairs[0][1], lat2=pairs[0][2], lon2=pairs[0][3], a=a, invf=invf)]
    r2['samples'] = r1['samples']
    return [r1, r2]


def replay_case(check, inp):
    import geodepy.geodesy as gd, geodepy.constants as C
    f1, f2, _ = check_pair(gd, C, inp['lat1'], inp['lon1'], inp['lat2'], inp['lon2'], inp['a'], inp['invf'])
    return f1 or f2
