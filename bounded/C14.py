"""Layer B for C14 (bounded stand-in): grid inverse/direct consistency, line scale factor vs point scale factors."""
import random, math

RULES = {
    'C14.B.inverse_direct': 'zones 1..60 (longitude inside +-180), both hemispheres, eastings 100 000..900 000 m, latitudes -80..84, lines 1 m..100 km in every direction, second point in the same or an adjacent zone (same hemisphere): grid distance = ellipsoidal distance x lsf, bearings = azimuths + convergence at each end (own zone); lines within the grid convergence of grid north included; the direct computation from the reported bearing (as reported, and reduced to [0, 360)) and grid distance reproduces the second point in zone 1 within 1 mm',
    'C14.B.line_scale_factor': 'same lines: the line scale factor lies between the smallest and largest point scale factor along the line (21 samples) within 3e-7 and agrees with their Simpson mean within 5e-7',
}


def chunks(tier, seed):
    return [dict(seed=seed * 29 + i, n=40 if tier == 'quick' else 800) for i in range(8)]


def work(item):
    import geodepy.geodesy as gd, geodepy.convert as cv, geodepy.constants as C
    rng = random.Random(item['seed'])
    r1 = dict(check='C14.B.inverse_direct', function='geodesy.vincinv_utm', n=0, keys=set(), failures=[], samples=[])
    r2 = dict(check='C14.B.line_scale_factor', function='geodesy.line_sf', n=0, keys=set(), failures=[], samples=[])
    e = C.grs80
    tries = 0
    while r1['n'] < item['n'] and tries < item['n'] * 20:
        tries += 1
        z1 = rng.randint(1, 60)
        cm = z1 * 6 - 183
        north = rng.random() < 0.5
        lat1 = rng.uniform(0.2, 83.0) if north else rng.uniform(-79.0, -0.2)
        lon1 = cm + rng.uniform(-3.0, 3.0)
        h1, _, e1, n1 = cv.geo2grid(lat1, lon1, z1, e)[:4]
        if not (100000 <= e1 <= 900000 and -180 <= lon1 <= 180):
            continue
        s = 10 ** rng.uniform(0, 5)
        az = rng.choice([0.0, 90.0, 180.0, 270.0, rng.uniform(0, 360), rng.uniform(0, 360), rng.uniform(356.5, 360), rng.uniform(0, 3.5)])   # also lines within the grid convergence of grid north
        lat2, lon2, _ = gd.vincdir(lat1, lon1, az, s, e)
        if not (-180 <= lon2 <= 180) or (lat2 > 0) != north or abs(lat2) < 0.05 or not (-80 < lat2 < 84):
            continue
        adj = rng.random() < 0.4
        z2 = z1 if not adj else cv.geo2grid(lat2, lon2, 0, e)[1]
        if abs(z2 - z1) > 1:
            continue
        h2, _, e2, n2 = cv.geo2grid(lat2, lon2, z2, e)[:4]
        if h1 != h2 or not (100000 <= e2 <= 900000):
            continue
        hemi = 'north' if north else 'south'
        inp = dict(zone1=z1, east1=e1, north1=n1, zone2=z2, east2=e2, north2=n2, hemisphere=hemi)
        r1['n'] += 1
        r1['keys'].add((z1, e1, n1, z2, e2, n2))
        try:
            gdist, b12, b21, lsf = gd.vincinv_utm(z1, e1, n1, z2, e2, n2, hemi, e)
            p1 = cv.grid2geo(z1, e1, n1, hemi, e)
            p2 = cv.grid2geo(z2, e2, n2, hemi, e)
            ed, a12, a21 = gd.vincinv(p1[0], p1[1], p2[0], p2[1], e)
            ok = abs(gdist - ed * lsf) <= 1e-9 * max(1, gdist) and abs(b12 - (a12 + p1[3])) <= 1e-12 and abs(b21 - (a21 + p2[3])) <= 1e-12
            if not ok:
                r1['failures'].append(dict(input=inp, what='inverse: distance/bearings are not ell_dist x lsf / azimuth + convergence', got=[gdist, b12, b21, lsf]))
            if ed > 0.5:
                # the reported bearing as it is (it may lie outside 0..360 by the convergence) and reduced to [0, 360): the same grid direction
                for brg in ([b12] if 0 <= b12 < 360 else [b12, b12 % 360.0]):
                    zz, ee, nn, bb, ll = gd.vincdir_utm(z1, e1, n1, brg, gdist, hemi, e)
                    tgt = cv.geo2grid(p2[0], p2[1], z1, e)
                    d = math.hypot(ee - tgt[2], nn - tgt[3])
                    if zz != z1 or d > 1e-3 + 2e-4:      # + the 0.1 mm rounding of both grid coordinates
                        r1['failures'].append(dict(input=dict(inp, bearing=brg), what='direct computation does not reproduce the second point in zone 1 within 1 mm', miss_m=d, got=[zz, ee, nn]))
                        break
            # line scale factor vs point scale factors along the straight grid line (in zone 1)
            tgt = cv.geo2grid(p2[0], p2[1], z1, e)
            ks = []
            for i in range(21):
                t = i / 20
                ks.append(cv.grid2geo(z1, e1 + t * (tgt[2] - e1), n1 + t * (tgt[3] - n1), hemi, e)[2])
            simpson = (ks[0] + ks[-1] + 4 * sum(ks[1:-1:2]) + 2 * sum(ks[2:-1:2])) / 60
            r2['n'] += 1
            r2['keys'].add((z1, e1, n1, z2, e2, n2))
            if lsf < min(ks) - 3e-7 or lsf > max(ks) + 3e-7 or abs(lsf - simpson) > 5e-7:
                r2['failures'].append(dict(input=inp, what='line scale factor outside [min,max] point scale factor or off the Simpson mean', lsf=lsf, kmin=min(ks), kmax=max(ks), simpson=simpson))
        except Exception as ex:
            r1['failures'].append(dict(input=inp, what='exception: %s: %s' % (type(ex).__name__, ex)))
    r1['samples'] = [dict(zone1=55, east1=296000.0, north1=5795000.0, hemisphere='south')]
    r2['samples'] = r1['samples']
    return [r1, r2]


def replay_case(check, inp):
    import geodepy.geodesy as gd, geodepy.constants as C
    if 'zone1' in inp:
        return dict(result=list(gd.vincinv_utm(inp['zone1'], inp['east1'], inp['north1'], inp['zone2'], inp['east2'], inp['north2'], inp['hemisphere'], C.grs80)), note='re-run ./check C14 for the judgement')
    return None
