"""Independent specification of the Transverse Mercator projection (nothing derived from /repo).

(1) kruger(): alpha / beta / rectifying-radius series to n^8 as exact rationals, derived from first principles by
    spec/kruger_derive.py (conformal latitude ODE, meridian integral, series composition/reversion).
(2) tm_forward_spec(): the Krueger-n-series definition chain written against a math namespace M (symbolic or mpmath):
    conformal latitude -> Gauss-Schreiber (spherical TM) -> series -> scale and false origin.
(3) tm_exact(): exact TM *by definition* (conformal, true to scale on the central meridian) by complex continuation
    of the meridian arc - the oracle of the bounded layer; psf_gc_exact(): scale/convergence from its complex derivative.
"""
import json, os
from fractions import Fraction as Fr
import mpmath as mp

HERE = os.path.dirname(os.path.abspath(__file__))


def kruger():
    d = json.load(open(os.path.join(HERE, 'kruger_n8.json')))
    A = [Fr(x) for x in d['A_over_a']]
    al = {int(j): [Fr(x) for x in v] for j, v in d['alpha'].items()}
    be = {int(j): [Fr(x) for x in v] for j, v in d['beta'].items()}
    # A/a * (1+n) truncated at n^8: the closed form a/(1+n) * (1 + n^2/4 + n^4/64 + ...)
    P = [Fr(0)] * 9
    for k in range(9):
        P[k] = A[k] + (A[k - 1] if k else 0)
    return dict(A_over_a=A, A_times_1pn=P, alpha=al, beta=be)


def poly(coefs, n):
    """sum coefs[k] n^k (Horner), coefs exact Fractions; n any number type"""
    r = 0
    for c in reversed(coefs):
        r = r * n + (c if not isinstance(c, Fr) else c)
    return r


# ------------------------------------------------------------------------------------------------ definition chain
def asinh_(x, M):
    return M.log(x + M.sqrt(1 + x * x))


def atanh_(x, M):
    return M.log((1 + x) / (1 - x)) / 2


def conformal_tau(tau, e, M):
    """tan(chi) from tan(phi): tau' = tau sqrt(1+sigma^2) - sigma sqrt(1+tau^2), sigma = sinh(e atanh(e tau/sqrt(1+tau^2)))
    (Karney 2011 eqs 7-9; equivalently chi = gd(gd^-1(phi) - e atanh(e sin phi)))"""
    sig = M.sinh(e * atanh_(e * tau / M.sqrt(1 + tau * tau), M))
    return tau * M.sqrt(1 + sig * sig) - sig * M.sqrt(1 + tau * tau)


def gauss_schreiber(taup, omega, M):
    """spherical transverse Mercator of conformal latitude chi (tan chi = taup) at longitude difference omega"""
    xi1 = M.atan(taup / M.cos(omega))
    eta1 = asinh_(M.sin(omega) / M.sqrt(taup * taup + M.cos(omega) * M.cos(omega)), M)
    return xi1, eta1


def series_fwd(xi1, eta1, alpha, M):
    xi, eta = xi1, eta1
    for j in range(1, 9):
        xi = xi + alpha[j - 1] * M.sin(2 * j * xi1) * M.cosh(2 * j * eta1)
        eta = eta + alpha[j - 1] * M.cos(2 * j * xi1) * M.sinh(2 * j * eta1)
    return xi, eta


def tm_forward_spec(lat_rad, omega_rad, A, alpha, e, k0, fe, M):
    """returns (east, y_scaled) with north = k0*A*xi (+ false northing by the hemisphere rule, applied by the caller)"""
    taup = conformal_tau(M.tan(lat_rad), e, M)
    xi1, eta1 = gauss_schreiber(taup, omega_rad, M)
    xi, eta = series_fwd(xi1, eta1, alpha, M)
    return k0 * A * eta + fe, k0 * A * xi, dict(taup=taup, xi1=xi1, eta1=eta1, xi=xi, eta=eta)


def series_dpq(xi1, eta1, alpha, M):
    p, q = 1, 0
    for j in range(1, 9):
        p = p + 2 * j * alpha[j - 1] * M.cos(2 * j * xi1) * M.cosh(2 * j * eta1)
        q = q + 2 * j * alpha[j - 1] * M.sin(2 * j * xi1) * M.sinh(2 * j * eta1)
    return p, q


# ------------------------------------------------------------------------------------------------ exact oracle
def tm_exact(lat, lon, cm, a, invf, k0, dps=30):
    """exact TM by definition: returns (E, N) relative to the true origin (no false origin), mp numbers"""
    mp.mp.dps = dps
    f = 1 / mp.mpf(invf)
    e2 = f * (2 - f)
    e = mp.sqrt(e2)
    phi = mp.radians(mp.mpf(lat))
    w = mp.radians(mp.mpf(lon) - mp.mpf(cm))
    q = mp.atanh(mp.sin(phi)) - e * mp.atanh(e * mp.sin(phi))          # isometric latitude
    z = q + 1j * w
    zeta = 2 * mp.atan(mp.exp(z)) - mp.pi / 2                         # gd(z): complex conformal latitude
    target = mp.atanh(mp.sin(zeta))
    p = zeta
    for _ in range(60):
        s = mp.sin(p)
        F = mp.atanh(s) - e * mp.atanh(e * s) - target
        dF = (1 - e2) / ((1 - e2 * s * s) * mp.cos(p))
        dp = F / dF
        p -= dp
        if abs(dp) < mp.mpf(10) ** (-(dps - 3)):
            break
    Mc = mp.mpf(a) * (1 - e2) * mp.quad(lambda t: (1 - e2 * mp.sin(t) ** 2) ** mp.mpf(-1.5), [0, p])
    return mp.mpf(k0) * Mc.imag, mp.mpf(k0) * Mc.real


def psf_gc_exact(lat, lon, cm, a, invf, k0, dps=30):
    """point scale factor and grid convergence (degrees, grid bearing of true north... sign: gamma = atan2(dE/dphi, dN/dphi))
    from the derivative of the exact projection along the meridian"""
    mp.mp.dps = dps
    f = 1 / mp.mpf(invf)
    e2 = f * (2 - f)
    h = mp.mpf('1e-8')
    E1, N1 = tm_exact(lat + h, lon, cm, a, invf, k0, dps)
    E0, N0 = tm_exact(lat - h, lon, cm, a, invf, k0, dps)
    dE, dN = (E1 - E0) / (2 * h), (N1 - N0) / (2 * h)
    phi = mp.radians(mp.mpf(lat))
    rho = mp.mpf(a) * (1 - e2) / (1 - e2 * mp.sin(phi) ** 2) ** mp.mpf(1.5)
    k = mp.sqrt(dE ** 2 + dN ** 2) / (rho * mp.pi / 180)
    gamma = mp.degrees(mp.atan2(dE, dN))
    return k, gamma
