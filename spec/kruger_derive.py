"""Exact derivation of Krueger alpha/beta (to n^8) and rectifying radius from the
definitions of conformal and rectifying latitude.  Elements: truncated series in n
with Laurent-polynomial coefficients in w = exp(i*phi) over Gaussian rationals."""
from fractions import Fraction as Fr
import sys, time
N = int(__import__("os").environ.get("KRUGER_N", "8"))
class S:
    __slots__=('d',)
    def __init__(s, d=None): s.d = d or {}
    @staticmethod
    def const(c, m=0): return S({(0,m):(Fr(c),Fr(0))}) if c else S()
    def __add__(a,b):
        d=dict(a.d)
        for k,(r,i) in b.d.items():
            r0,i0=d.get(k,(0,0)); r1,i1=r0+r,i0+i
            if r1==0 and i1==0: d.pop(k,None)
            else: d[k]=(r1,i1)
        return S(d)
    def scale(a, re, im=0):
        re=Fr(re); im=Fr(im); d={}
        for k,(r,i) in a.d.items():
            rr,ii=r*re-i*im, r*im+i*re
            if rr or ii: d[k]=(rr,ii)
        return S(d)
    def __neg__(a): return a.scale(-1)
    def __sub__(a,b): return a+(-b)
    def __mul__(a,b):
        d={}
        for (p1,m1),(r1,i1) in a.d.items():
            for (p2,m2),(r2,i2) in b.d.items():
                m=m1+m2
                if m> N: continue
                k=(p1+p2,m); r0,i0=d.get(k,(0,0))
                d[k]=(r0+r1*r2-i1*i2, i0+r1*i2+i1*r2)
        return S({k:v for k,v in d.items() if v[0] or v[1]})
    def __pow__(a,e):
        r=S.const(1)
        for _ in range(e): r=r*a
        return r
    def minord(a): return min((m for (_,m) in a.d), default=99)
W=S({(1,0):(Fr(1),Fr(0))}); Wi=S({(-1,0):(Fr(1),Fr(0))})
SIN=(W-Wi).scale(0,Fr(-1,2))      # (w-1/w)/(2i)
COS=(W+Wi).scale(Fr(1,2))
nS=S({(0,1):(Fr(1),Fr(0))})
def nseries(coefs):  # sum c_k n^k
    r=S()
    for k,c in enumerate(coefs):
        if k<=N and c: r=r+S.const(c,k)
    return r
def exp_i(p, E):  # exp(i*p*E), E=O(n)
    r=S.const(1); term=S.const(1)
    for m in range(1,N+1):
        term=(term*E).scale(0,Fr(p,m))
        r=r+term
    return r
def compose(D, E):
    """D(phi) given in w; return D(chi+E(chi)) in w=exp(i chi)"""
    cache={}
    out=S()
    for (p,m),(r,i) in D.d.items():
        if p not in cache: cache[p]=exp_i(p,E)
        out=out+ (S({(p,m):(r,i)})*cache[p])
    return out
def revert(D):
    """phi -> chi = phi + D(phi); return E with phi = chi + E(chi)"""
    E=S()
    for _ in range(N+1):
        E=-compose(D,E)
    return E
def sine_coeffs(G):
    """G = sum a_j sin(2 j x): return {j: poly in n (list of Fr)}; verify form"""
    out={}
    for (p,m),(r,i) in G.d.items():
        assert p%2==0 and p!=0, (p,m,r,i)
        assert r==0, "not a pure sine series"
        j=abs(p)//2
        # sin(2jx) = (w^{2j}-w^{-2j})/(2i) -> coeff of w^{2j} is a_j/(2i) = -i a_j/2
        a = -2*i if p>0 else 2*i
        lst=out.setdefault(j,[Fr(0)]*(N+1))
        if p>0: lst[m]=a
        else: assert lst[m]==a or lst[m]==0
    return out
t0=time.time()
# e^2 = 4n/(1+n)^2 as series in n
inv1pn2 = nseries([(-1)**k*(k+1) for k in range(N+1)])      # 1/(1+n)^2
e2 = (nS*inv1pn2).scale(4)
# delta = e*atanh(e sin phi) = sum_k e^(2k+2) sin^(2k+1)/(2k+1)
delta=S(); e2k=S.const(1); s_odd=SIN; s2=SIN*SIN
for k in range(0,N):
    e2k=e2k*e2
    delta=delta+(e2k*s_odd).scale(Fr(1,2*k+1))
    s_odd=s_odd*s2
# Taylor of F(delta)=gd(gd^-1(phi)-delta): F'=-cos F; ds=-c^2, dc=s*c
# polynomials in (s,c) as dict {(a,b):coef}
def dpoly(P):
    Q={}
    for (a,b),c in P.items():
        if a: k=(a-1,b+2); Q[k]=Q.get(k,0)-c*a
        if b: k=(a+1,b);   Q[k]=Q.get(k,0)+c*b
    return {k:v for k,v in Q.items() if v}
def evalpoly(P):
    r=S()
    for (a,b),c in P.items():
        r=r+((SIN**a)*(COS**b)).scale(c)
    return r
P={(0,1):Fr(-1)}; D=S(); dm=S.const(1); fact=1
for m in range(1,N+1):
    dm=dm*delta; fact*=m
    D=D+(evalpoly(P)*dm).scale(Fr(1,fact))
    P=dpoly(P)
chi_phi=sine_coeffs(D)
print("chi-phi: d1 =", [str(x) for x in chi_phi[1][:5]], file=sys.stderr)
# meridian: dM/dphi = a(1-n)^2(1+n) (1+n^2+2n cos2phi)^(-3/2)
cos2=(W*W+Wi*Wi).scale(Fr(1,2))
u = nS*nS + (nS*cos2).scale(2)
# (1+u)^(-3/2) binomial series
binom=S.const(1); term=S.const(1); c=Fr(1)
for k in range(1,N+1):
    c=c*Fr(-3,2)-c*(k-1) if False else c
    pass
coef=Fr(1); ser=S.const(1); up=S.const(1)
for k in range(1,N+1):
    coef=coef*(Fr(-3,2)-(k-1))/k
    up=up*u
    ser=ser+up.scale(coef)
pref = (S.const(1)-nS)*(S.const(1)-nS)*(S.const(1)+nS)
integrand = pref*ser      # / a
# integrate termwise in phi: w^p -> w^p/(i p); p=0 -> phi*coef (secular)
sec=[Fr(0)]*(N+1); Mper=S()
for (p,m),(r,i) in integrand.d.items():
    if p==0:
        assert i==0; sec[m]+=r
    else:
        # 1/(i p) = -i/p
        Mper=Mper+S({(p,m):(r,i)}).scale(0,Fr(-1,p))
# M(phi)/a = sec(n)*phi + Mper ; rectifying radius A/a = sec(n); mu = phi + Mper/sec
print("A/a series:", [str(x) for x in sec], file=sys.stderr)
# 1/sec as series
inv=[Fr(0)]*(N+1); inv[0]=1/sec[0]
for m in range(1,N+1):
    inv[m]=-sum(sec[k]*inv[m-k] for k in range(1,m+1))/sec[0]
Mphi = Mper*nseries(inv)
mu_phi=sine_coeffs(Mphi)
print("mu-phi: c1 =", [str(x) for x in mu_phi[1][:5]], file=sys.stderr)
E=revert(D)                 # phi = chi + E(chi)
G = E + compose(Mphi, E)    # mu - chi as fn of chi
alpha=sine_coeffs(G)
Bneg=revert(G)              # chi = mu + Bneg(mu) ; Bneg = -sum beta_j sin 2j mu
beta={j:[-x for x in v] for j,v in sine_coeffs(Bneg).items()}
print("time %.2fs"%(time.time()-t0), file=sys.stderr)
import json
OUT = sys.argv[1] if len(sys.argv) > 1 else "kruger_n8.json"
json.dump({"A_over_a":[str(x) for x in sec],
           "alpha":{j:[str(x) for x in v] for j,v in alpha.items()},
           "beta":{j:[str(x) for x in v] for j,v in beta.items()}}, open(OUT,"w"), indent=1)
