"""Helmert similarity transformation, GDA2020 Technical Manual v1.x eq. (coordinate-frame rotation convention):
    X' = T + (1 + sc*1e-6) * [[1, rz, -ry], [-rz, 1, rx], [ry, -rx, 1]] * X,   rotations = radians(arcsec / 3600).
Independent of /repo."""


def rotation_rad(arcsec, pi):
    return arcsec / 3600 * pi / 180


def similarity(X, T, sc_ppm, r_arcsec, pi):
    x, y, z = X
    rx, ry, rz = [rotation_rad(r, pi) for r in r_arcsec]
    s = 1 + sc_ppm / 1000000
    return (T[0] + s * (x + rz * y - ry * z),
            T[1] + s * (-rz * x + y + rx * z),
            T[2] + s * (ry * x - rx * y + z))


def jacobian(X, sc_ppm, r_arcsec, pi):
    """d(X')/d(x, y, z, s, rx, ry, rz, tx, ty, tz) with s = 1 + sc*1e-6 and rotations in radians (3 x 10),
    obtained by symbolic differentiation of `similarity` (sympy), see jacobian_sympy()"""
    import sympy as sp
    xs = sp.symbols('x y z s rx ry rz tx ty tz')
    x, y, z, s, rx, ry, rz, tx, ty, tz = xs
    F = sp.Matrix([tx + s * (x + rz * y - ry * z), ty + s * (-rz * x + y + rx * z), tz + s * (ry * x - rx * y + z)])
    J = F.jacobian(sp.Matrix(xs))
    vals = dict(x=X[0], y=X[1], z=X[2], s=1 + sc_ppm / 1000000, rx=rotation_rad(r_arcsec[0], pi), ry=rotation_rad(r_arcsec[1], pi),
                rz=rotation_rad(r_arcsec[2], pi))
    out = []
    for i in range(3):
        row = []
        for j in range(10):
            e = J[i, j]
            row.append(_ev(e, vals))
        out.append(row)
    return out


def _ev(e, vals):
    import sympy as sp
    if e.is_Number:
        return int(e) if e.is_Integer else float(e)
    if e.is_Symbol:
        return vals[e.name]
    if e.is_Add:
        r = _ev(e.args[0], vals)
        for a in e.args[1:]:
            r = r + _ev(a, vals)
        return r
    if e.is_Mul:
        r = _ev(e.args[0], vals)
        for a in e.args[1:]:
            r = r * _ev(a, vals)
        return r
    raise NotImplementedError(str(e))
