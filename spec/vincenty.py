"""Vincenty (1975) direct and inverse formulae, written from the paper (Survey Review XXIII, 176) against a math
namespace M.  Angles in radians.  Nothing here is derived from /repo."""


def AB(u2):
    A = 1 + u2 / 16384 * (4096 + u2 * (-768 + u2 * (320 - 175 * u2)))
    B = u2 / 1024 * (256 + u2 * (-128 + u2 * (74 - 47 * u2)))
    return A, B


def delta_sigma(B, sigma, cos2sm, M):
    ss, cs = M.sin(sigma), M.cos(sigma)
    return B * ss * (cos2sm + B / 4 * (cs * (-1 + 2 * cos2sm * cos2sm) - B / 6 * cos2sm * (-3 + 4 * ss * ss) * (-3 + 4 * cos2sm * cos2sm)))


def C_of(f, cos2alpha):
    return f / 16 * cos2alpha * (4 + f * (4 - 3 * cos2alpha))


def direct_setup(phi1, alpha1, s, a, b, f, M):
    U1 = M.atan((1 - f) * M.tan(phi1))
    sigma1 = M.atan2(M.tan(U1), M.cos(alpha1))
    alpha = M.asin(M.cos(U1) * M.sin(alpha1))
    u2 = M.cos(alpha) * M.cos(alpha) * (a * a - b * b) / (b * b)
    A, B = AB(u2)
    return dict(U1=U1, sigma1=sigma1, alpha=alpha, u2=u2, A=A, B=B, sigma0=s / (b * A))


def direct_step(su, sigma, s, b, M):
    two_sm = 2 * su['sigma1'] + sigma
    return s / (b * su['A']) + delta_sigma(su['B'], sigma, M.cos(two_sm), M), two_sm


def direct_finish(su, sigma, two_sm, alpha1, f, M):
    U1, alpha = su['U1'], su['alpha']
    sU, cU, ss, cs, ca1 = M.sin(U1), M.cos(U1), M.sin(sigma), M.cos(sigma), M.cos(alpha1)
    phi2 = M.atan2(sU * cs + cU * ss * ca1, (1 - f) * M.sqrt(M.sin(alpha) * M.sin(alpha) + (sU * ss - cU * cs * ca1) * (sU * ss - cU * cs * ca1)))
    lam = M.atan2(ss * M.sin(alpha1), cU * cs - sU * ss * ca1)
    C = C_of(f, M.cos(alpha) * M.cos(alpha))
    c2 = M.cos(two_sm)
    L = lam - (1 - C) * f * M.sin(alpha) * (sigma + C * ss * (c2 + C * cs * (-1 + 2 * c2 * c2)))
    alpha2 = M.atan2(M.sin(alpha), -sU * ss + cU * cs * ca1)
    return phi2, L, alpha2


def inverse_step(U1, U2, lam, L, f, M):
    """one iteration of Vincenty's inverse: returns new lambda and the auxiliary quantities"""
    sU1, cU1, sU2, cU2 = M.sin(U1), M.cos(U1), M.sin(U2), M.cos(U2)
    sin_sigma = M.sqrt((cU2 * M.sin(lam)) * (cU2 * M.sin(lam)) + (cU1 * sU2 - sU1 * cU2 * M.cos(lam)) * (cU1 * sU2 - sU1 * cU2 * M.cos(lam)))
    cos_sigma = sU1 * sU2 + cU1 * cU2 * M.cos(lam)
    sigma = M.atan2(sin_sigma, cos_sigma)
    alpha = M.asin(cU1 * cU2 * M.sin(lam) / sin_sigma)
    ca2 = M.cos(alpha) * M.cos(alpha)
    cos2sm = M.cos(sigma) - 2 * sU1 * sU2 / ca2
    C = C_of(f, ca2)
    new = L + (1 - C) * f * M.sin(alpha) * (sigma + C * M.sin(sigma) * (cos2sm + C * M.cos(sigma) * (-1 + 2 * cos2sm * cos2sm)))
    return new, dict(sigma=sigma, alpha=alpha, cos2sm=cos2sm, sin_sigma=sin_sigma, cos_sigma=cos_sigma)


def inverse_finish(U1, U2, lam, sigma, alpha, cos2sm, a, b, M):
    u2 = M.cos(alpha) * M.cos(alpha) * (a * a - b * b) / (b * b)
    A, B = AB(u2)
    s = b * A * (sigma - delta_sigma(B, sigma, cos2sm, M))
    sU1, cU1, sU2, cU2 = M.sin(U1), M.cos(U1), M.sin(U2), M.cos(U2)
    az1 = M.atan2(cU2 * M.sin(lam), cU1 * sU2 - sU1 * cU2 * M.cos(lam))
    az2 = M.atan2(cU1 * M.sin(lam), -sU1 * cU2 + cU1 * sU2 * M.cos(lam))
    return s, az1, az2
