"""Independent specifications (textbook definitions; nothing here is derived from /repo)."""


def ellipsoid_consts(a, invf):
    f = 1 / invf
    e2 = f * (2 - f)
    b = a * (1 - f)
    n = f / (2 - f)
    return dict(a=a, f=f, e2=e2, b=b, n=n, ep2=e2 / (1 - e2))


def geodetic_to_cart(lat_deg, lon_deg, h, a, invf, M):
    """closed-form ECEF coordinates of (lat, lon, h) on the ellipsoid (a, 1/f)"""
    c = ellipsoid_consts(a, invf)
    phi = lat_deg * M.pi / 180
    lam = lon_deg * M.pi / 180
    nu = a / M.sqrt(1 - c['e2'] * M.sin(phi) * M.sin(phi))
    return ((nu + h) * M.cos(phi) * M.cos(lam),
            (nu + h) * M.cos(phi) * M.sin(lam),
            ((1 - c['e2']) * nu + h) * M.sin(phi))
