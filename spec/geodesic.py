"""Exact direct geodesic on an ellipsoid of revolution by quadrature on the auxiliary sphere
(Bessel 1825 / Helmert 1880; Karney 2013 eqs 7-8).  Independent of /repo."""
import mpmath as mp


def direct_exact(lat1, lon1, az1, s, a, invf, dps=30):
    """returns (lat2, lon2, forward azimuth at point 2) in degrees (mp numbers); lon2 not wrapped.
    A start exactly at a pole is the limit along the meridian lon1."""
    mp.mp.dps = dps
    a = mp.mpf(a)
    f = 1 / mp.mpf(invf)
    b = a * (1 - f)
    ep2 = (a * a - b * b) / (b * b)
    phi1 = mp.radians(mp.mpf(lat1))
    al1 = mp.radians(mp.mpf(az1))
    if abs(lat1) == 90:
        phi1 = mp.sign(lat1) * (mp.pi / 2 - mp.mpf(10) ** (-(dps - 10)))
    be1 = mp.atan((1 - f) * mp.tan(phi1))
    sa0 = mp.sin(al1) * mp.cos(be1)
    ca0 = mp.sqrt(1 - sa0 * sa0)
    sig1 = mp.atan2(mp.sin(be1), mp.cos(al1) * mp.cos(be1))
    om1 = mp.atan2(sa0 * mp.sin(sig1), mp.cos(sig1))
    k2 = ep2 * ca0 * ca0
    s = mp.mpf(s)

    def I1(sg):
        return mp.quad(lambda t: mp.sqrt(1 + k2 * mp.sin(t) ** 2), mp.linspace(0, sg, 5) if abs(sg) > 1 else [0, sg])
    target = s / b + I1(sig1)
    sig2 = sig1 + s / b
    for _ in range(60):                      # Newton on I1(sig2) = target (integrand > 0)
        d = (I1(sig2) - target) / mp.sqrt(1 + k2 * mp.sin(sig2) ** 2)
        sig2 -= d
        if abs(d) < mp.mpf(10) ** (-(dps - 4)):
            break
    be2 = mp.atan2(ca0 * mp.sin(sig2), mp.hypot(ca0 * mp.cos(sig2), sa0))
    al2 = mp.atan2(sa0, ca0 * mp.cos(sig2))
    om2 = mp.atan2(sa0 * mp.sin(sig2), mp.cos(sig2))
    if sa0 != 0:
        dom = (om2 - om1) + 2 * mp.pi * mp.floor(((sig2 - sig1) - (om2 - om1) + mp.pi) / (2 * mp.pi))
    else:
        dom = om2 - om1
    I3 = mp.quad(lambda t: (2 - f) / (1 + (1 - f) * mp.sqrt(1 + k2 * mp.sin(t) ** 2)), mp.linspace(sig1, sig2, 5) if abs(sig2 - sig1) > 1 else [sig1, sig2])
    lam = dom - f * sa0 * I3
    phi2 = mp.atan(mp.tan(be2) / (1 - f))
    return mp.degrees(phi2), mp.mpf(lon1) + mp.degrees(lam), mp.degrees(al2)


def ground_offset_m(lat_a, lon_a, lat_b, lon_b, a, invf):
    """small-separation distance in metres between two positions (degrees), longitude compared modulo 360"""
    f = 1 / mp.mpf(invf)
    e2 = f * (2 - f)
    phi = mp.radians((mp.mpf(lat_a) + mp.mpf(lat_b)) / 2)
    W = mp.sqrt(1 - e2 * mp.sin(phi) ** 2)
    Mr = mp.mpf(a) * (1 - e2) / W ** 3
    Nr = mp.mpf(a) / W
    dlat = mp.radians(mp.mpf(lat_a) - mp.mpf(lat_b))
    dl = (mp.mpf(lon_a) - mp.mpf(lon_b) + 540) % 360 - 180
    dlon = mp.radians(dl)
    return mp.sqrt((Mr * dlat) ** 2 + (Nr * mp.cos(phi) * dlon) ** 2)
