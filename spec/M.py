"""Math namespaces: one specification text, two evaluations (symbolic z3 terms / 50-digit mpmath)."""
import mpmath as mp
import z3


class MSym:
    from vp.sym import UF as _UF, PI as pi
    sym = True
    sin = staticmethod(lambda x: MSym._UF['sin'](x))
    cos = staticmethod(lambda x: MSym._UF['cos'](x))
    tan = staticmethod(lambda x: MSym._UF['tan'](x))
    atan = staticmethod(lambda x: MSym._UF['atan'](x))
    atan2 = staticmethod(lambda y, x: MSym._UF['atan2'](y, x))
    asin = staticmethod(lambda x: MSym._UF['asin'](x))
    sqrt = staticmethod(lambda x: MSym._UF['sqrt'](x))
    sinh = staticmethod(lambda x: MSym._UF['sinh'](x))
    cosh = staticmethod(lambda x: MSym._UF['cosh'](x))
    log = staticmethod(lambda x: MSym._UF['log'](x))
    exp = staticmethod(lambda x: MSym._UF['exp'](x))

    @staticmethod
    def num(x):
        return z3.RealVal(x) if isinstance(x, (int, str)) else x

    @staticmethod
    def abs(x):
        return z3.If(x >= 0, x, -x)


class MMp:
    pi = mp.pi
    sym = False
    sin, cos, tan, atan, atan2, asin, sqrt = mp.sin, mp.cos, mp.tan, mp.atan, mp.atan2, mp.asin, mp.sqrt
    sinh, cosh, log, exp = mp.sinh, mp.cosh, mp.log, mp.exp

    @staticmethod
    def num(x):
        return mp.mpf(x)

    abs = staticmethod(abs)
