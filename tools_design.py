#!/usr/bin/env python3
"""Regenerate the status table of DESIGN.md (between the STATUS markers) from evidence/*.json and MANIFEST.json."""
import json, os, re
HERE = os.path.dirname(os.path.abspath(__file__))
man = json.load(open(os.path.join(HERE, 'MANIFEST.json')))
rows = ['| property | claimed level | Layer P: obligations discharged / generated | functions under contract | loops cut | Layer B: evaluations (checks) | known findings reported | quick wall time |',
        '|---|---|---|---|---|---|---|---|']
tot = [0, 0, 0]
for c in man['checks']:
    pid = c['property_id']
    ev = json.load(open(os.path.join(HERE, 'evidence', pid + '.json')))
    cov = ev['coverage']
    b = cov.get('bounded', [])
    rows.append('| %s | %s | %d / %d | %d | %d | %d (%d%s) | %d | %.0f s |' % (
        pid, c['level_claimed']['category'], cov['discharged'], cov['obligations'], len(cov.get('functions_under_contract', [])), len(cov.get('loops_cut', [])),
        sum(x['evaluations'] for x in b), len(b), ', ' + str(sum(1 for x in b if x.get('exhaustive'))) + ' exhaustive' if any(x.get('exhaustive') for x in b) else '',
        len(cov.get('known_findings_reported', [])), ev['wall_s']))
    tot[0] += cov['discharged']
    tot[1] += cov['obligations']
    tot[2] += sum(x['evaluations'] for x in b)
rows.append('| all | | %d / %d | | | %d | | |' % (tot[0], tot[1], tot[2]))
p = os.path.join(HERE, 'DESIGN.md')
s = open(p).read()
a, b_ = '<!-- BEGIN:STATUS -->', '<!-- END:STATUS -->'
if a in s and b_ in s:
    s = s[:s.index(a) + len(a)] + '\n' + '\n'.join(rows) + '\n' + s[s.index(b_):]
    open(p, 'w').write(s)
    print('DESIGN.md status table updated:', tot)
else:
    print('\n'.join(rows))
