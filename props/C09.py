"""C09 - library calls are pure: no hidden state, no mutation of constants or arguments.
A frame / ownership property, decided without executing histories: (1) frame[f]: the REAL function runs on symbolic inputs,
all paths, under a write barrier on every object that exists before the call (module constants and arguments); callees of
composite functions are replaced by pure stubs so that every function is checked against its own body (modular);
(2) frame_static[module]: sound over-approximating AST scan of stores / mutator calls on anything not freshly allocated;
(3) reads[module]: no clock, RNG, environment, file or written global.  Lemma over the contracts: empty write frames and
reads within arguments + never-written constants => results are a function of the arguments => identical on repetition,
independent of history and of interleaving with other threads."""
import z3, ast, os, datetime, inspect
import numpy as np
from vp import engine as E, sym as S, bounded as B, state as ST
from vp.report import Prop
from vp.sym import Sym, lift, real
from vp.ghosts import GhostDate, WriteBarrier
from .common import *
from . import tmlib as L

MODS = ('constants', 'transform', 'survey', 'statistics', 'convert', 'geodesy')
MUTATORS = {'sort', 'append', 'extend', 'pop', 'remove', 'insert', 'clear', 'update', 'fill', 'reverse', 'setdefault', 'popitem', 'add', 'discard', 'resize', 'put', 'itemset', 'setfield',
            'partition', 'byteswap'}


class RecList(list):
    """a caller-owned list: every mutator is recorded"""
    log = []
for _m in ('sort', 'append', 'extend', 'pop', 'remove', 'insert', 'clear', 'reverse', '__setitem__', '__delitem__', '__iadd__', '__imul__'):
    def _mk(m):
        def f(self, *a, **k):
            RecList.log.append(m)
            return getattr(list, m)(self, *a, **k)
        return f
    setattr(RecList, _m, _mk(_m))


def frozen_array(a):
    a = np.array(a, dtype=object)
    a.flags.writeable = False
    return a


def main():
    P = Prop('C09')
    mods = E.load_repo(ALL)
    C, cv, gd, st, sv, tr, ang = [mods['geodepy.' + m] for m in ('constants', 'convert', 'geodesy', 'statistics', 'survey', 'transform', 'angles')]
    classes = [C.Ellipsoid, C.Projection, C.Transformation, C.TransformationSD]
    consts = [v for v in vars(C).values() if isinstance(v, tuple(classes))]
    ell = sym_ellipsoid(C)
    prj = sym_projection(C)
    x, y, z, a1, a2, a3, a4, d1 = [real(n) for n in ('x', 'y', 'z', 'a1', 'a2', 'a3', 'a4', 'd1')]
    zn = S.integer('zone')
    V = lambda: frozen_array([[real('v%d%d' % (min(i, j), max(i, j))) for j in range(3)] for i in range(3)])
    col = lambda: frozen_array([[real('c0')], [real('c1')], [real('c2')]])
    ref, to = S.integer('ref_ord'), S.integer('to_ord')

    def symT(sd=True):
        from .C06 import PARAMS, RATES, SDS
        sdo = C.TransformationSD(**{k: real(k) for k in SDS + tuple('sd_d_' + p for p in PARAMS)}) if sd else None
        return C.Transformation('F', 'T', GhostDate(ref), *[real(k) for k in PARAMS + RATES], tf_sd=sdo)
    def ufv(tag, a, k):
        """a pure stub of a callee: an uninterpreted function of EVERYTHING the call passes (so that a result that reaches the
        caller through written module state stays visible in the caller's result)"""
        ts = [t if z3.is_real(t) else z3.ToReal(t) for t in ST.terms_of([list(a), sorted(k.items())]) if z3.is_real(t) or z3.is_int(t)]
        f = z3.Function('STUB_%s_%d' % (tag, len(ts)), *([S.R] * (len(ts) + 1)))
        return Sym(f(*ts)) if ts else Sym(z3.Real('STUB_%s' % tag))
    pure = lambda n: (lambda *a, **k: tuple(ufv('%s_%d' % (n, i), a, k) for i in range(6)))
    stub3 = lambda n: (lambda *a, **k: tuple(ufv('%s_%d' % (n, i), a, k) for i in range(3)))
    stub4 = lambda n: (lambda *a, **k: tuple(ufv('%s_%d' % (n, i), a, k) for i in range(4)))
    g2g_stub = lambda *a, **k: ('South', a[2] if len(a) > 2 else 0, ufv('S_e', a, k), ufv('S_n', a, k), ufv('S_k', a, k), ufv('S_g', a, k))
    mat_stub = lambda *a, **k: np.array([[ufv('M%d%d' % (i, j), a, k) for j in range(3)] for i in range(3)], dtype=object)
    c7_stub = lambda *a, **k: (ufv('c7x', a, k), ufv('c7y', a, k), ufv('c7z', a, k), mat_stub(*a, **k) if (len(a) > 4 and a[4] is not None) or k.get('vcv') is not None else None)
    hp_stub = lambda h: h * 10000 / 3600
    T1 = symT()
    vlist = RecList([real('va1'), real('va2'), real('va3'), real('va4')])
    vl_pre = [lift(vlist[0]) > lift(vlist[1]), lift(vlist[1]) > lift(vlist[2]), lift(vlist[2]) > lift(vlist[3])]

    class GhostDTm:
        date = GhostDate
    # (name, module object, thunk, rebinding of callees, caller-owned mutable arguments, extra objects to freeze)
    CAT = [
        ('convert.polar2rect', cv, lambda: cv.polar2rect(x, y), {}, [], []),
        ('convert.rect2polar', cv, lambda: cv.rect2polar(x, y), {}, [], []),
        ('convert.rect_radius', cv, lambda: cv.rect_radius(ell), {}, [], [ell]),
        ('convert.alpha_coeff', cv, lambda: cv.alpha_coeff(ell), {}, [], [ell]),
        ('convert.beta_coeff', cv, lambda: cv.beta_coeff(ell), {}, [], [ell]),
        ('convert.psfandgridconv', cv, lambda: cv.psfandgridconv(a1, a2, x, y, z, a3, ell, prj), {}, [], [ell, prj]),
        ('convert.geo2grid', cv, lambda: cv.geo2grid(x, y, zn, ell, prj), dict(psfandgridconv=lambda *a, **k: (Sym(z3.Real('k')), Sym(z3.Real('g')))), [], [ell, prj]),
        ('convert.grid2geo', cv, None, {}, [], [ell, prj]),
        ('convert.xyz2llh', cv, None, {}, [], [ell]),
        ('convert.llh2xyz', cv, lambda: cv.llh2xyz(x, y, z, ell), {}, [], [ell]),
        ('geodesy.enu2xyz', gd, lambda: gd.enu2xyz(x, y, a1, a2, a3), {}, [], []),
        ('geodesy.xyz2enu', gd, lambda: gd.xyz2enu(x, y, a1, a2, a3), {}, [], []),
        ('geodesy.vincdir', gd, None, {}, [], [ell]),
        ('geodesy.vincinv', gd, None, {}, [], [ell]),
        ('geodesy.rho', gd, lambda: gd.rho(x, ell), {}, [], [ell]),
        ('geodesy.nu', gd, lambda: gd.nu(x, ell), {}, [], [ell]),
        ('geodesy.line_sf', gd, lambda: gd.line_sf(55, a1, a2, 56, a3, a4, 'south', ell, C.utm), dict(grid2geo=stub4('g2'), geo2grid=g2g_stub), [], [ell]),
        ('geodesy.vincinv_utm', gd, lambda: gd.vincinv_utm(55, a1, a2, 55, a3, a4, 'south', ell), dict(grid2geo=stub4('g2'), vincinv=stub3('vi'), line_sf=lambda *a, **k: Sym(z3.Real('lsf'))), [], [ell]),
        ('geodesy.vincdir_utm', gd, None, {}, [], [ell]),
        ('statistics.rotation_matrix', st, lambda: st.rotation_matrix(x, y), {}, [], []),
        ('statistics.vcv_cart2local[3x3]', st, lambda: st.vcv_cart2local(V(), x, y), {}, ['arr'], []),
        ('statistics.vcv_cart2local[3x1]', st, lambda: st.vcv_cart2local(col(), x, y), {}, ['arr'], []),
        ('statistics.vcv_local2cart[3x3]', st, lambda: st.vcv_local2cart(V(), x, y), {}, ['arr'], []),
        ('statistics.vcv_local2cart[3x1]', st, lambda: st.vcv_local2cart(col(), x, y), {}, ['arr'], []),
        ('statistics.error_ellipse', st, lambda: st.error_ellipse(V()), {}, ['arr'], []),
        ('statistics.relative_error', st, lambda: st.relative_error(x, y, V(), V(), V()), dict(error_ellipse=stub3('ee')), ['arr'], []),
        ('statistics.circ_hz_pu', st, lambda: st.circ_hz_pu(a1, a2), {}, [], []),
        ('statistics.k_val95', st, lambda: [st.k_val95(k) for k in (-5, 0, 1, 17, 120, 121, 200)], {}, [], []),
        ('survey.first_vel_params', sv, lambda: sv.first_vel_params(a1, a2, a3, a4), {}, [], []),
        ('survey.part_h2o_vap_press', sv, lambda: sv.part_h2o_vap_press(a1, a2, a3), {}, [], []),
        ('survey.first_vel_corrn', sv, lambda: sv.first_vel_corrn(d1, (a1, a2), x, y, z), {}, [], []),
        ('survey.first_vel_corrn[CO2]', sv, lambda: sv.first_vel_corrn(d1, (a1, a2), x, y, z, None, a3, a4), dict(group_refractivity=lambda *a, **k: Sym(z3.Real('grp'))), [], []),
        ('survey.mets_partial_differentials', sv, lambda: sv.mets_partial_differentials(a1, x, y, z), {}, [], []),
        ('survey.precise_inst_ht', sv, lambda: sv.precise_inst_ht(vlist, a1, a2), dict(mean=lambda l: sum(l[1:], l[0]) / len(l), stdev=lambda l: Sym(z3.Real('sd')), round=lambda v, n=0: v), ['list'], []),
        ('survey.joins', sv, lambda: sv.joins(a1, a2, a3, a4), {}, [], []),
        ('survey.radiations', sv, lambda: sv.radiations(a1, a2, x, d1, y, z), {}, [], []),
        ('survey.va_conv', sv, lambda: sv.va_conv(x, d1, a1, a2), {}, [], []),
        ('survey.phase_refractivity', sv, lambda: sv.phase_refractivity(a1, x, y, z, a2), {}, [], []),
        ('survey.group_refractivity', sv, lambda: sv.group_refractivity(a1, x, y, z, a2), {}, [], []),
        ('survey.humidity2part_water_vapour_press', sv, lambda: sv.humidity2part_water_vapour_press(a1, x), {}, [], []),
        ('transform.conform7', tr, lambda: tr.conform7(x, y, z, T1), dict(hp2dec=hp_stub), [], [T1, T1.tf_sd]),
        ('transform.conform7[vcv]', tr, lambda: tr.conform7(x, y, z, T1, V()), dict(hp2dec=hp_stub), ['arr'], [T1, T1.tf_sd]),
        ('transform.conform14[vcv]', tr, lambda: tr.conform14(x, y, z, GhostDate(to), T1, V()), dict(datetime=GhostDTm, conform7=c7_stub, __constants__=dict(date=GhostDate)), ['arr'], [T1, T1.tf_sd]),
        ('transform.transform_mga94_to_mga2020[vcv]', tr, lambda: tr.transform_mga94_to_mga2020(zn, a1, a2, a3, V()),
         dict(grid2geo=stub4('g2'), geo2grid=g2g_stub, llh2xyz=stub3('l2'), xyz2llh=stub3('x2'), conform7=c7_stub, vcv_local2cart=mat_stub, vcv_cart2local=mat_stub), ['arr'], []),
        ('transform.transform_mga2020_to_mga94[vcv]', tr, lambda: tr.transform_mga2020_to_mga94(zn, a1, a2, a3, V()),
         dict(grid2geo=stub4('g2'), geo2grid=g2g_stub, llh2xyz=stub3('l2'), xyz2llh=stub3('x2'), conform7=c7_stub, vcv_local2cart=mat_stub, vcv_cart2local=mat_stub), ['arr'], []),
        ('transform.transform_atrf2014_to_gda2020[vcv]', tr, lambda: tr.transform_atrf2014_to_gda2020(x, y, z, GhostDate(to), V()), dict(conform14=c7_stub), ['arr'], []),
        ('transform.transform_gda2020_to_atrf2014[vcv]', tr, lambda: tr.transform_gda2020_to_atrf2014(x, y, z, GhostDate(to), V()), dict(conform14=c7_stub), ['arr'], []),
        ('constants.Transformation.__neg__', C, lambda: -T1, {}, [], [T1, T1.tf_sd]),
        ('constants.Transformation.__add__', C, lambda: T1 + GhostDate(to), dict(date=GhostDate), [], [T1, T1.tf_sd]),
        ('constants.iers2trans', C, lambda: C.iers2trans('a', 'b', datetime.date(2010, 1, 1), *[real('i%d' % k) for k in range(14)]), {}, [], []),
    ]
    # loop-cut versions for the iterative functions (frame of the loop body is observed on the loopback path, exit code on the exit path)
    from .C04 import loop_hook
    cutfn = {
        'convert.grid2geo': (lambda: L.cut_grid2geo(cv, L.ell_flat), lambda f: f(zn, a1, a2, 'south', ell, prj), dict(psfandgridconv=lambda *a, **k: (Sym(z3.Real('k')), Sym(z3.Real('g'))))),
        'convert.xyz2llh': (lambda: E.cut_loops(cv.xyz2llh, cv, loop_hook('C9XYZ')), lambda f: f(x, y, z, ell), {}),
        'geodesy.vincdir': (lambda: E.cut_loops(gd.vincdir, gd, loop_hook('C9VD'), cut_for=True), lambda f: f(x, y, a1, d1, ell), {}),
        'geodesy.vincinv': (lambda: E.cut_loops(gd.vincinv, gd, loop_hook('C9VI'), cut_for=True), lambda f: f(x, y, a1, a2, ell), {}),
        'geodesy.vincdir_utm': (lambda: E.cut_loops(gd.vincdir_utm, gd, lambda lid, names, vals, rn, rv: tuple(
            Sym(z3.Real('C9L_' + n)) if not isinstance(v, (str, int)) or isinstance(v, Sym) else v for n, v in zip(names, vals))),
            lambda f: f(55, a1, a2, x, d1, 'south', ell), dict(grid2geo=stub4('g2'), geo2grid=g2g_stub, vincdir=stub3('vd'), line_sf=lambda *a, **k: Sym(z3.Real('lsf')), radiations=lambda *a, **k: (a1, a2))),
    }
    total_paths = 0
    for name, mod, thunk, rb, owned, freeze in CAT:
        wb = WriteBarrier(classes + [ang.DECAngle, ang.HPAngle, ang.GONAngle, ang.DMSAngle, ang.DDMAngle])
        wb.freeze(*consts)
        wb.freeze(*freeze)
        RecList.log = []
        rb = dict(rb)
        if thunk is None:
            mk, call, rb2 = cutfn[name]
            rb.update(rb2)
            f = mk()
            thunk = (lambda f=f, call=call: call(f))
        rbC = rb.pop('__constants__', {})
        try:
            with E.rebound(mod, **rb), E.rebound(C, **rbC), wb:
                pth = E.explore(thunk, vl_pre if 'list' in owned else (), history=True, label=name, max_paths=400)
        except S.EngineError as ex:
            # outside the engine's reach (unsupported construct, path explosion): undecided here, never a verdict; the bounded layer still judges the function
            P.oblige('frame[%s]' % name, name, 'engine', dict(result='engine: %s' % str(ex)[:120], backend='symbolic execution', ms=0), strict=True, soft=True)
            continue
        total_paths += len(pth)
        writes = list(wb.writes)
        arr_writes = [p for p in pth if p['kind'] == 'raise' and 'read-only' in str(p['val'])]
        bad_list = list(RecList.log)
        # written module state (memo tables ...): results after an arbitrary earlier call must still be a function of the arguments
        hist_dep = [p for p in pth if p.get('history') and p.get('verdict') == 'dependent']
        hist_unk = [p for p in pth if p.get('history') and p.get('verdict') == 'unknown']        # reported once by state_independence[...] as UNDECIDED
        # uninitialised memory (np.empty) is modelled as fresh symbols: a result that mentions one is not a function of the arguments
        uninit_dep = [p for p in pth if any(n_.startswith('UNINIT_') for n_ in ST.consts_of(ST.terms_of(p['val'])))]
        completes = any(p['kind'] in ('ret', 'loopback') for p in pth)          # vacuity guard: the body has been run to completion on some path
        ok = completes and not writes and not arr_writes and not bad_list and not hist_dep and not uninit_dep

        def refute(w, name=name):
            if name == 'survey.precise_inst_ht':
                import geodepy.survey as s2
                vl = [88.0, 90.5, 89.2, 91.4]
                before = list(vl)
                s2.precise_inst_ht(vl, 0.1, 0.1)
                if vl != before:
                    return dict(call='precise_inst_ht([88.0, 90.5, 89.2, 91.4], 0.1, 0.1)', observed='caller list reordered to %r' % vl, expected='caller list unchanged %r' % before)
            return None
        evidence_of_effect = bool(writes or arr_writes or bad_list or hist_dep or uninit_dep)
        vacuous = not completes and not evidence_of_effect
        P.oblige('frame[%s]' % name, name, '%d paths' % len(pth),
                 dict(result='discharged' if ok else ('sat' if evidence_of_effect else 'engine: no path of the function runs to completion on symbolic inputs (%r)' % ([(p['kind'], p['val']) for p in pth if p['kind'] == 'raise'][:2],)),
                      backend='write barrier + recording list + read-only arrays, all paths', ms=0, model=None),
                 strict=True, refute=refute, pool=[{}], soft=vacuous,
                 note='assigns nothing that existed before the call; writes=%r list-mutators=%r array-writes=%d; paths whose result depends on an earlier call through written module state: %d of %d history paths; paths whose result reads uninitialised memory: %d' % (
                     [(c_, n_) for c_, n_, _, _ in writes][:6], bad_list[:4], len(arr_writes), len(hist_dep), sum(bool(p.get('history')) for p in pth), len(uninit_dep)))
    P.notes.append('frame obligations explored %d paths of %d functions' % (total_paths, len(CAT)))

    # ---------------------------------------------------------------- (2) static frame analysis and (3) reads, per module
    for m in MODS:
        src = open(os.path.join(E.REPO, 'geodepy', m + '.py')).read()
        tree = ast.parse(src)
        flagged, reads_bad = [], []
        state_names = {e['name'] for e in ST.STATE if e['owner'] is mods.get('geodepy.' + m) and e['kind'] == 'container'}
        state_names |= {n_.split('.')[-1] for n_ in state_names if n_.startswith('closure:')}          # memo tables held in closure cells: judged by the history paths
        modglobals = set()
        for n in tree.body:
            for t in ast.walk(n) if isinstance(n, (ast.Assign, ast.AugAssign)) else []:
                if isinstance(t, ast.Name) and isinstance(t.ctx, ast.Store):
                    modglobals.add(t.id)
        # parameters that, at every call site inside the module, receive a registered state container (a memo table handed to a helper):
        # stores through them are stores into that state and are judged by the history paths
        state_params = set()
        fdefs = {n.name: n for n in ast.walk(tree) if isinstance(n, (ast.FunctionDef, ast.AsyncFunctionDef))}
        for fname, fd in fdefs.items():
            for i_, a_ in enumerate(fd.args.args):
                sites = [c for c in ast.walk(tree) if isinstance(c, ast.Call) and isinstance(c.func, ast.Name) and c.func.id == fname]
                vals = [(c.args[i_] if i_ < len(c.args) else next((k.value for k in c.keywords if k.arg == a_.arg), None)) for c in sites]
                if sites and all(isinstance(v_, ast.Name) and v_.id in state_names for v_ in vals):
                    state_params.add((fname, a_.arg))
        for fn in [n for n in ast.walk(tree) if isinstance(n, (ast.FunctionDef, ast.AsyncFunctionDef))]:
            params = {a.arg for a in fn.args.args + fn.args.kwonlyargs} | ({fn.args.vararg.arg} if fn.args.vararg else set())
            fresh = set()
            for n in ast.walk(fn):        # names bound in this function to a freshly allocated object (call / literal / operator result)
                if isinstance(n, ast.Assign) and isinstance(n.value, ast.Call) and ast.unparse(n.value.func) in ('vars', 'globals', 'locals', 'getattr', 'object.__getattribute__'):
                    continue          # vars(obj) / getattr(obj, ..) hand out an object that already exists: not a fresh allocation
                if isinstance(n, ast.Assign) and isinstance(n.value, ast.Attribute) :
                    continue
                if isinstance(n, ast.Assign) and isinstance(n.value, (ast.Call, ast.List, ast.Dict, ast.Set, ast.ListComp, ast.BinOp, ast.Tuple, ast.Constant, ast.DictComp)):
                    for t in n.targets:
                        for q in ast.walk(t):
                            if isinstance(q, ast.Name):
                                fresh.add(q.id)

            def base(e):
                while isinstance(e, (ast.Attribute, ast.Subscript)):
                    e = e.value
                return e.id if isinstance(e, ast.Name) else None
            for n in ast.walk(fn):
                tgts = []
                if isinstance(n, ast.Assign):
                    tgts = n.targets
                elif isinstance(n, (ast.AugAssign, ast.AnnAssign)):
                    tgts = [n.target]
                for t in tgts:
                    for q in ([t] if not isinstance(t, ast.Tuple) else t.elts):
                        if isinstance(q, (ast.Attribute, ast.Subscript)):
                            b = base(q)
                            if b == 'self' and fn.name == '__init__':
                                continue
                            if b is not None and (b in params or (b not in fresh)) and b not in state_names and (fn.name, b) not in state_params:
                                flagged.append((fn.name, n.lineno, ast.unparse(q)))
                if isinstance(n, ast.Call) and isinstance(n.func, ast.Attribute) and n.func.attr in MUTATORS:
                    b = base(n.func.value)
                    if b is not None and (b in params or b not in fresh) and b not in state_names and (fn.name, b) not in state_params:
                        flagged.append((fn.name, n.lineno, ast.unparse(n.func)))
                if isinstance(n, (ast.Global, ast.Nonlocal)):
                    flagged.append((fn.name, n.lineno, 'global/nonlocal ' + ','.join(n.names)))
                if isinstance(n, ast.Call):
                    nm = ast.unparse(n.func)
                    if nm in ('open', 'input', 'print') or nm.split('.')[0] in ('random', 'time', 'os', 'sys') or nm.endswith(('.now', '.today', '.utcnow', '.getenv')):
                        reads_bad.append((fn.name, n.lineno, nm))
        P.oblige('frame_static[%s]' % m, 'geodepy/%s.py' % m, 'AST scan', dict(result='discharged' if not flagged else 'sat', backend='allocation-site freshness analysis over the module AST', ms=0, model=None),
                 strict=True, note='stores through attribute/subscript, augmented assignment, mutator calls and global statements on anything not freshly allocated in the call: %r' % (flagged[:6],))
        P.oblige('reads[%s]' % m, 'geodepy/%s.py' % m, 'AST scan', dict(result='discharged' if not reads_bad else 'sat', backend='AST scan of calls', ms=0), strict=True,
                 note='no clock, RNG, environment, file or console access: %r' % (reads_bad[:6],))
    # module-level mutable containers: present but never written (checked by frame_static) - listed for the record
    P.notes.append('module-level containers read by functions: statistics.ttable_p95 (list, never written); written module state (judged by the history paths of frame[f], not by frame_static): %r' % (ST.describe(),))
    P.assumptions += ['bit-identical repetition additionally assumes determinism of CPython float operations and of numpy matmul on fixed shapes',
                      'allowed effects besides the return value: raising an exception and warnings.warn (ISG/ellipsoid notice in geo2grid/grid2geo; it touches only the interpreter warning registry, which no library result reads)',
                      'scalar preconditions: latitude/longitude/coordinates are numbers (an ndarray passed where a scalar is documented could be rebound in place by operators such as *=)']
    B.report(P, 'bounded.C09')
    P.finish('proof')


def replay(d):
    from bounded import C09 as b
    fi = d.get('failing_input') or {}
    return b.replay_case(d.get('check'), fi.get('input', fi))
