"""C16 - local-frame rotations preserve geometry and covariance; error measures match.
Functions under contract: statistics.rotation_matrix, vcv_cart2local, vcv_local2cart, error_ellipse, relative_error,
k_val95; geodesy.enu2xyz, xyz2enu."""
import z3, itertools
import numpy as np
import mpmath as mp
from vp import engine as E, sym as S, bounded as B
from vp.report import Prop
from vp.sym import Sym, UF, PI, lift, real
from .common import *


def T(x):
    return x.t if isinstance(x, Sym) else lift(x)


def mat(m):
    return [[T(m[i, j]) for j in range(m.shape[1])] for i in range(m.shape[0])]


def mm(A, Bm):
    return [[sum((A[i][k] * Bm[k][j] for k in range(len(Bm))), z3.RealVal(0)) for j in range(len(Bm[0]))] for i in range(len(A))]


def tr(A):
    return [[A[j][i] for j in range(len(A))] for i in range(len(A[0]))]


def det3(M):
    return (M[0][0] * (M[1][1] * M[2][2] - M[1][2] * M[2][1]) - M[0][1] * (M[1][0] * M[2][2] - M[1][2] * M[2][0])
            + M[0][2] * (M[1][0] * M[2][1] - M[1][1] * M[2][0]))


def main():
    P = Prop('C16')
    mods = E.load_repo(ALL)
    st, gd = mods['geodepy.statistics'], mods['geodepy.geodesy']
    lat, lon = real('lat'), real('lon')
    phi, lam = lat.t * PI / 180, lon.t * PI / 180
    sp, cp, sl, cl = UF['sin'](phi), UF['cos'](phi), UF['sin'](lam), UF['cos'](lam)
    trig = [sp * sp + cp * cp == 1, sl * sl + cl * cl == 1]
    # specification of the local frame, from the statement: columns east, north, up; up = ellipsoid normal
    Rs = [[-sl, -sp * cl, cp * cl], [cl, -sp * sl, cp * sl], [z3.RealVal(0), cp, sp]]

    def pe(code, spec, hy=()):
        return E.prove_eq(code, spec, list(hy))

    # ---------------------------------------------------------------- rotation_matrix
    paths = E.explore(lambda: st.rotation_matrix(lat, lon))
    assert len(paths) == 1 and paths[0]['kind'] == 'ret'
    Rm = mat(paths[0]['val'])
    A = E.Abstractor()
    Ra = [[A.ab(x) for x in row] for row in Rm]
    side = list(A.side)
    RtR = mm(tr(Ra), Ra)
    goal = z3.And(*[RtR[i][j] == (1 if i == j else 0) for i in range(3) for j in range(3)])
    P.oblige('C16.rotation_matrix.orthonormal', 'statistics.rotation_matrix', 'all', E.prove(goal, side, use_axioms=False), strict=True)
    P.oblige('C16.rotation_matrix.right_handed', 'statistics.rotation_matrix', 'all', E.prove(det3(Ra) == 1, side, use_axioms=False), strict=True)
    for j, nm in enumerate(('east', 'north', 'up')):
        for i in range(3):
            P.oblige('C16.rotation_matrix.column_%s[%d]' % (nm, i), 'statistics.rotation_matrix', 'all', pe(Rm[i][j], Rs[i][j]),
                     code=Rm[i][j], spec=Rs[i][j])
    # up axis is the ellipsoid normal: it is the gradient direction of x^2/a^2+y^2/a^2+z^2/b^2 at the foot point (C03 proves the
    # foot point and normal of llh2xyz are (cos phi cos lam, cos phi sin lam, sin phi)); east is horizontal and orthogonal to the meridian plane
    P.oblige('C16.rotation_matrix.east_horizontal', 'statistics.rotation_matrix', 'all',
             E.prove(z3.And(A.ab(Rm[2][0]) == 0, A.ab(Rm[0][0]) * A.ab(cl) + A.ab(Rm[1][0]) * A.ab(sl) == 0), A.side, use_axioms=False), strict=True)

    # ---------------------------------------------------------------- enu2xyz / xyz2enu
    e, n, u = real('e'), real('n'), real('u')
    p1 = E.explore(lambda: gd.enu2xyz(lat, lon, e, n, u))
    assert len(p1) == 1
    xyz = [T(v) for v in p1[0]['val']]
    spec_xyz = [Rs[i][0] * e.t + Rs[i][1] * n.t + Rs[i][2] * u.t for i in range(3)]
    for i, c in enumerate('xyz'):
        P.oblige('C16.enu2xyz.value.' + c, 'geodesy.enu2xyz', 'all', pe(xyz[i], spec_xyz[i]), code=xyz[i], spec=spec_xyz[i])
    A = E.Abstractor()
    xa = [A.ab(v) for v in xyz]
    P.oblige('C16.enu2xyz.length_preserved', 'geodesy.enu2xyz', 'all',
             E.prove(xa[0] * xa[0] + xa[1] * xa[1] + xa[2] * xa[2] == e.t * e.t + n.t * n.t + u.t * u.t, A.side, use_axioms=False), strict=True)
    p2 = E.explore(lambda: gd.xyz2enu(lat, lon, *p1[0]['val']))
    assert len(p2) == 1
    back = [T(v) for v in p2[0]['val']]
    A = E.Abstractor()
    ba = [A.ab(v) for v in back]
    P.oblige('C16.xyz2enu.inverse_of_enu2xyz', 'geodesy.xyz2enu', 'all',
             E.prove(z3.And(ba[0] == e.t, ba[1] == n.t, ba[2] == u.t), A.side, use_axioms=False), strict=True)
    x, y, z = real('x'), real('y'), real('z')
    p3 = E.explore(lambda: gd.xyz2enu(lat, lon, x, y, z))
    enu = p3[0]['val']
    p4 = E.explore(lambda: gd.enu2xyz(lat, lon, *enu))
    A = E.Abstractor()
    ba = [A.ab(T(v)) for v in p4[0]['val']]
    P.oblige('C16.enu2xyz.inverse_of_xyz2enu', 'geodesy.enu2xyz', 'all',
             E.prove(z3.And(ba[0] == x.t, ba[1] == y.t, ba[2] == z.t), A.side, use_axioms=False), strict=True)
    spec_enu = [Rs[0][j] * x.t + Rs[1][j] * y.t + Rs[2][j] * z.t for j in range(3)]
    for j, c in enumerate(('east', 'north', 'up')):
        P.oblige('C16.xyz2enu.value.' + c, 'geodesy.xyz2enu', 'all', pe(T(enu[j]), spec_enu[j]), code=T(enu[j]), spec=spec_enu[j])
    # angle-object arguments reduce to decimal degrees
    ang = mods['geodepy.angles']
    pa = E.explore(lambda: gd.enu2xyz(ang.DECAngle(lat), ang.DECAngle(lon), e, n, u))
    same = all(z3.is_true(z3.simplify(T(a_) == T(b_))) for a_, b_ in zip(pa[0]['val'], p1[0]['val']))
    P.oblige('C16.enu2xyz.angle_objects', 'geodesy.enu2xyz', 'DECAngle', dict(result='discharged' if same else 'sat', backend='syntactic term identity', ms=0), strict=True)

    # ---------------------------------------------------------------- covariance rotation
    V = np.array([[real('v%d%d' % (min(i, j), max(i, j))) for j in range(3)] for i in range(3)], dtype=object)      # symmetric
    G = np.array([[real('g%d%d' % (i, j)) for j in range(3)] for i in range(3)], dtype=object)                      # general
    Vt, Gt = mat(V), mat(G)
    for name, fn, spec_of in (('vcv_cart2local', st.vcv_cart2local, lambda M: mm(mm(tr(Rs), M), Rs)),
                              ('vcv_local2cart', st.vcv_local2cart, lambda M: mm(mm(Rs, M), tr(Rs)))):
        pp = E.explore(lambda: fn(G, lat, lon))
        assert len(pp) == 1 and pp[0]['kind'] == 'ret'
        out = mat(pp[0]['val'])
        spec = spec_of(Gt)
        A = E.Abstractor()
        goal = z3.And(*[A.ab(out[i][j]) == A.ab(spec[i][j]) for i in range(3) for j in range(3)])
        P.oblige('C16.%s.value' % name, 'statistics.' + name, '3x3', E.prove(goal, A.side, use_axioms=False), strict=True,
                 note='R^T V R / R V R^T with R the specified east-north-up frame, for every real 3x3 matrix')
        pp = E.explore(lambda: fn(V, lat, lon))
        out = mat(pp[0]['val'])
        A = E.Abstractor()
        oa = [[A.ab(v) for v in row] for row in out]
        P.oblige('C16.%s.symmetric' % name, 'statistics.' + name, '3x3',
                 E.prove(z3.And(oa[0][1] == oa[1][0], oa[0][2] == oa[2][0], oa[1][2] == oa[2][1]), A.side, use_axioms=False), strict=True)
        P.oblige('C16.%s.trace' % name, 'statistics.' + name, '3x3',
                 E.prove(oa[0][0] + oa[1][1] + oa[2][2] == Vt[0][0] + Vt[1][1] + Vt[2][2], A.side, use_axioms=False), strict=True)
        minors = lambda M: (M[0][0] * M[1][1] - M[0][1] * M[1][0]) + (M[0][0] * M[2][2] - M[0][2] * M[2][0]) + (M[1][1] * M[2][2] - M[1][2] * M[2][1])
        P.oblige('C16.%s.charpoly' % name, 'statistics.' + name, '3x3',
                 E.prove(z3.And(minors(oa) == minors(Vt), det3(oa) == det3(Vt)), A.side, use_axioms=False, timeout=120000), strict=True,
                 note='trace, sum of principal 2x2 minors and determinant agree => same characteristic polynomial => same eigenvalues')
        # column case
        col = np.array([[real('d0')], [real('d1')], [real('d2')]], dtype=object)
        pp = E.explore(lambda: fn(col, lat, lon))
        assert len(pp) == 1 and pp[0]['val'].shape == (3, 1)
        D = [[T(col[i, 0]) if i == j else z3.RealVal(0) for j in range(3)] for i in range(3)]
        spec = spec_of(D)
        A = E.Abstractor()
        goal = z3.And(*[A.ab(T(pp[0]['val'][i, 0])) == A.ab(spec[i][i]) for i in range(3)])
        P.oblige('C16.%s.column_case' % name, 'statistics.' + name, '3x1', E.prove(goal, A.side, use_axioms=False), strict=True)
        # shape guard (concrete shapes: executed natively, complete over the shapes tried)
        bad = 0
        for shp in ((3, 2), (2, 3), (2, 2), (4, 4), (3, 4), (1, 3)):
            try:
                fn(np.zeros(shp), 10.0, 20.0)
            except ValueError:
                bad += 1
        P.oblige('C16.%s.shape_guard' % name, 'statistics.' + name, 'shapes', dict(result='discharged' if bad == 6 else 'sat', backend='native execution (concrete shapes)', ms=0), strict=True)
    # round trip through both functions
    pp = E.explore(lambda: st.vcv_local2cart(st.vcv_cart2local(G, lat, lon), lat, lon))
    out = mat(pp[0]['val'])
    A = E.Abstractor()
    goal = z3.And(*[A.ab(out[i][j]) == Gt[i][j] for i in range(3) for j in range(3)])
    P.oblige('C16.vcv.roundtrip_cart_local_cart', 'statistics.vcv_local2cart', '3x3', E.prove(goal, A.side, use_axioms=False, timeout=120000), strict=True)
    pp = E.explore(lambda: st.vcv_cart2local(st.vcv_local2cart(G, lat, lon), lat, lon))
    out = mat(pp[0]['val'])
    A = E.Abstractor()
    goal = z3.And(*[A.ab(out[i][j]) == Gt[i][j] for i in range(3) for j in range(3)])
    P.oblige('C16.vcv.roundtrip_local_cart_local', 'statistics.vcv_cart2local', '3x3', E.prove(goal, A.side, use_axioms=False, timeout=120000), strict=True)

    # ---------------------------------------------------------------- error ellipse
    pp = E.explore(lambda: st.error_ellipse(V), label='statistics.error_ellipse')
    p_, q_, r_ = Vt[0][0], Vt[1][1], Vt[0][1]
    psd = [p_ >= 0, q_ >= 0, p_ * q_ - r_ * r_ >= 0]
    zz = UF['sqrt']((p_ - q_) * (p_ - q_) + 4 * r_ * r_)
    hy = psd + [zz >= 0, zz * zz == (p_ - q_) * (p_ - q_) + 4 * r_ * r_]
    # under PSD: (p+q)^2 >= z^2 so the second radicand is >= 0
    P.oblige('C16.error_ellipse.radicands_nonneg', 'statistics.error_ellipse', 'psd', E.prove(z3.And(p_ + q_ + zz >= 0, p_ + q_ - zz >= 0), hy, use_axioms=False), strict=True)
    t_ = UF['atan2'](2 * r_, p_ - q_)
    psi = t_ / 2
    okp = bool(pp) and all(p['kind'] == 'ret' for p in pp)
    if not okp:
        P.oblige('C16.error_ellipse.returns', 'statistics.error_ellipse', 'all', dict(result='sat', backend='path enumeration', ms=0), strict=True,
                 note='error_ellipse returns on every path for a PSD matrix: %r' % ([(p['kind'], p['val']) for p in pp if p['kind'] != 'ret'][:2],))
    for i_, pth_ in enumerate([p for p in pp if p['kind'] == 'ret']):          # one path on the unchanged tree
        tag = 'psd' if len(pp) == 1 else 'psd, path %d' % (i_ + 1)
        a_, b_, ori = [T(v) for v in pth_['val']]
        hyp_ = hy + [p_ + q_ + zz >= 0, p_ + q_ - zz >= 0] + list(pth_['pc'])
        g = z3.And(a_ * a_ + b_ * b_ == p_ + q_, a_ * a_ * b_ * b_ == p_ * q_ - r_ * r_, a_ >= b_, b_ >= 0)
        P.oblige('C16.error_ellipse.eigen', 'statistics.error_ellipse', tag, E.prove_abs(g, hyp_), strict=True,
                 note='a^2+b^2 = trace and a^2 b^2 = det of the horizontal block => a^2, b^2 are its eigenvalues; a >= b >= 0')
        spec_o = 90 - psi * 180 / PI
        P.oblige('C16.error_ellipse.orientation_form', 'statistics.error_ellipse', 'all' if len(pp) == 1 else 'path %d' % (i_ + 1),
                 pe(ori, spec_o) if not pth_['pc'] else E.prove_eq(ori, spec_o, hyp_), code=ori, spec=spec_o, hyps=hyp_ if pth_['pc'] else (),
                 note='bearing (clockwise from north) = 90 deg - angle of the major axis from east')
    Cc, Ss = z3.Real('cos_psi'), z3.Real('sin_psi')
    lam_a = (p_ + q_ + zz) / 2
    hy2 = hy + [Cc * Cc + Ss * Ss == 1, zz * (Cc * Cc - Ss * Ss) == p_ - q_, zz * (2 * Ss * Cc) == 2 * r_]
    g = z3.And(p_ * Cc + r_ * Ss == lam_a * Cc, r_ * Cc + q_ * Ss == lam_a * Ss)
    P.oblige('C16.error_ellipse.major_axis_is_eigenvector', 'statistics.error_ellipse', 'lemma', E.prove(g, hy2, use_axioms=False), strict=True,
             note='with psi = atan2(2 s_en, s_ee - s_nn)/2: polar form of atan2 and the double-angle identities (axiom instances) give M (cos psi, sin psi) = a^2 (cos psi, sin psi)')
    P.assumptions.append('error_ellipse.major_axis_is_eigenvector uses the axiom instances z cos(t) = p-q, z sin(t) = 2r (atan2 polar form) and cos t = cos^2(t/2) - sin^2(t/2), sin t = 2 sin(t/2) cos(t/2)')

    # ---------------------------------------------------------------- relative_error
    V1 = np.array([[real('a%d%d' % (min(i, j), max(i, j))) for j in range(3)] for i in range(3)], dtype=object)
    V2 = np.array([[real('b%d%d' % (min(i, j), max(i, j))) for j in range(3)] for i in range(3)], dtype=object)
    C12 = np.array([[real('c%d%d' % (i, j)) for j in range(3)] for i in range(3)], dtype=object)
    captured = {}
    real_ee = st.error_ellipse

    def ee_stub(vcv):
        captured['m'] = vcv
        return (Sym(z3.Real('EE_a')), Sym(z3.Real('EE_b')), Sym(z3.Real('EE_o')))
    with E.rebound(st, error_ellipse=ee_stub):
        pp = E.explore(lambda: st.relative_error(lat, lon, V1, V2, C12))
    assert len(pp) == 1 and pp[0]['kind'] == 'ret'
    M = mat(captured['m'])
    S_ = [[T(V1[i, j]) + T(V2[i, j]) - T(C12[i, j]) - T(C12[j, i]) for j in range(3)] for i in range(3)]
    spec = mm(mm(tr(Rs), S_), Rs)
    A = E.Abstractor()
    goal = z3.And(*[A.ab(M[i][j]) == A.ab(spec[i][j]) for i in range(3) for j in range(3)])
    P.oblige('C16.relative_error.matrix', 'statistics.relative_error', 'all', E.prove(goal, A.side, use_axioms=False, timeout=120000), strict=True,
             note='the matrix handed to error_ellipse is R^T (V1 + V2 - C12 - C12^T) R')
    out = pp[0]['val']
    ok = all(z3.is_true(z3.simplify(T(out[i]) == z3.Real(n))) for i, n in enumerate(('EE_a', 'EE_b', 'EE_o')))
    P.oblige('C16.relative_error.ellipse_wiring', 'statistics.relative_error', 'all', dict(result='discharged' if ok else 'sat', backend='syntactic term identity', ms=0), strict=True)
    P.oblige('C16.relative_error.up', 'statistics.relative_error', 'all', pe(T(out[3]), UF['sqrt'](spec[2][2])), code=T(out[3]), spec=UF['sqrt'](spec[2][2]))
    P.summaries.append('error_ellipse summarised by fresh symbols inside relative_error (its own contract is proved above)')

    # ---------------------------------------------------------------- k_val95
    table = S.SymList(st.ttable_p95, 'ttable_p95')
    dof = S.integer('dof')
    with E.rebound(st, ttable_p95=table):
        pp = E.explore(lambda: st.k_val95(dof), [S.is_int(dof.t)])
    res_ok = True
    for p in pp:
        if p['kind'] != 'ret':
            res_ok = False
            continue
        v = p['val']
        if isinstance(v, Sym):
            claim = z3.And(dof.t >= 1, dof.t <= 120, v.t == table.fn(dof.t - 1))
        elif v == 1.96:
            claim = dof.t > 120
        elif v == st.ttable_p95[0]:
            claim = dof.t < 1
        else:
            claim = z3.BoolVal(False)
        s = z3.Solver()
        s.add(S.is_int(dof.t), *p['pc'])
        s.add(z3.Not(claim))
        res_ok = res_ok and s.check() == z3.unsat
    P.oblige('C16.k_val95.selection', 'statistics.k_val95', 'all integers', dict(result='discharged' if res_ok and len(pp) == 3 else 'sat', backend=E.Z3V, ms=0), strict=True,
             note='dof<1 -> first entry; 1<=dof<=120 -> entry dof-1; dof>120 -> 1.96')
    inb = True
    for idx, pc in table.accesses:
        s = z3.Solver()
        s.add(S.is_int(dof.t), *pc)
        s.add(z3.Not(z3.And(idx >= 0, idx <= len(st.ttable_p95) - 1, S.is_int(idx))))
        inb = inb and s.check() == z3.unsat
    P.oblige('C16.k_val95.index_in_bounds', 'statistics.k_val95', 'table access', dict(result='discharged' if inb and table.accesses else 'sat', backend=E.Z3V, ms=0), strict=True)
    tg = 0
    for bad in (1.0, '3', None, 2.5):
        try:
            st.k_val95(bad)
        except TypeError:
            tg += 1
    P.oblige('C16.k_val95.type_guard', 'statistics.k_val95', 'non-int', dict(result='discharged' if tg == 4 else 'sat', backend='native execution', ms=0), strict=True)
    # the table itself: exhaustive bracket by 40-digit regularised incomplete beta
    mp.mp.dps = 40
    half = mp.mpf('0.000005')

    def cdf(t, nu):
        xx = nu / (nu + t * t)
        return 1 - mp.betainc(mp.mpf(nu) / 2, mp.mpf(1) / 2, 0, xx, regularized=True) / 2
    badrows = []
    for nu in range(1, 121):
        k = mp.mpf(repr(st.ttable_p95[nu - 1]))
        if not (cdf(k - half, nu) <= mp.mpf('0.975') <= cdf(k + half, nu)):
            badrows.append(nu)
    ok = not badrows and len(st.ttable_p95) == 120
    P.oblige('C16.k_val95.table', 'statistics.ttable_p95', '120 entries (exhaustive)', dict(result='discharged' if ok else 'sat', backend='mpmath 40-digit regularised incomplete beta (exhaustive enumeration)', ms=0),
             strict=True, refute=(lambda w: dict(dof=badrows, what='table entry is not the two-sided 95% Student-t quantile to 5 decimals')) if badrows else None, pool=[{}] if badrows else ())
    tail = mp.mpf('1.96')
    # dof > 120 returns 1.96: documented simplification; the statement constrains only 1..120 for the table

    # ---------------------------------------------------------------- engine cross-check
    rng = P.rng
    envs = [dict(lat=rng.uniform(-90, 90), lon=rng.uniform(-360, 360)) for _ in range(20)]
    real_rm = st.rotation_matrix
    pts, worst, cov = E.crosscheck(paths, envs, lambda w: real_rm(w['lat'], w['lon']), flatten=lambda m: [m[i, j] for i in range(3) for j in range(3)])
    P.crosscheck(pts, worst, cov, len(paths))
    B.report(P, 'bounded.C16')
    P.finish('proof')


def replay(d):
    from bounded import C16 as b
    fi = d.get('failing_input') or {}
    return b.replay_case(d.get('check'), fi.get('input', fi))
