"""C11 - the shipped transformation catalogue is labelled, reversible and self-consistent.
The catalogue is finite: every clause about it is decided completely on the objects of the REAL module, in exact rational
arithmetic (literals re-read as the decimals they spell).  Methods under contract: iers2trans, __neg__, __add__."""
import z3, datetime, itertools
from fractions import Fraction as Fr
from decimal import Decimal
from vp import engine as E, sym as S
from vp.report import Prop
from vp.sym import Sym, lift, real
from vp.ghosts import GhostDate
from .common import *
from .C06 import PARAMS, RATES, catalogue

ALL14 = PARAMS + RATES
TOL = dict(tx=Fr(15, 100000), ty=Fr(15, 100000), tz=Fr(15, 100000), sc=Fr(15, 1000000), rx=Fr(15, 1000000), ry=Fr(15, 1000000), rz=Fr(15, 1000000))


def dec(v):
    return Fr(Decimal(repr(v))) if isinstance(v, float) else Fr(v)


def main():
    P = Prop('C11')
    mods = E.load_repo(CORE)
    C = mods['geodepy.constants']
    cat = catalogue(C)
    byname = dict(cat)
    if len(cat) < 100:
        raise S.EngineError('catalogue unexpectedly small: %d' % len(cat))

    # ---------------------------------------------------------------- labels
    bad = []
    for n, t in cat:
        a, b = n.split('_to_', 1)
        if not (isinstance(t.from_datum, str) and isinstance(t.to_datum, str) and t.from_datum.lower() == a and (b == t.to_datum.lower() or b.startswith(t.to_datum.lower() + '_'))):
            bad.append((n, t.from_datum, t.to_datum))
    P.oblige('catalogue.label', 'constants (catalogue)', '%d sets (exhaustive)' % len(cat), dict(result='discharged' if not bad else 'sat', backend='exhaustive enumeration', ms=0, model=None),
             strict=True, refute=(lambda w: dict(call='geodepy.constants.' + bad[0][0], observed=list(bad[0][1:]), expected='labels named by the variable', all=bad)) if bad else None, pool=[{}],
             note='every constant <a>_to_<b>[_suffix] has from_datum == A and to_datum == B')

    # ---------------------------------------------------------------- reverse pairs
    bad = []
    npairs = 0
    for n, t in cat:
        a, b = n.split('_to_', 1)
        parts = b.split('_')
        rev = parts[0] + '_to_' + a + ('_' + '_'.join(parts[1:]) if len(parts) > 1 else '')
        if rev in byname:
            npairs += 1
            r = byname[rev]
            ok = (r.from_datum, r.to_datum, r.ref_epoch) == (t.to_datum, t.from_datum, t.ref_epoch) and all(dec(getattr(r, k)) == -dec(getattr(t, k)) for k in ALL14)
            if not ok:
                bad.append((n, rev))
    P.oblige('catalogue.reverse', 'constants (catalogue)', '%d ordered pairs (exhaustive)' % npairs, dict(result='discharged' if not bad and npairs >= 100 else 'sat', backend='exhaustive enumeration, exact rationals', ms=0, model=None),
             strict=True, refute=(lambda w: dict(pairs=bad, what='reverse constant is not the exact negation with swapped labels and the same epoch')) if bad else None, pool=[{}])

    # ---------------------------------------------------------------- chains A->B->C vs A->C between ITRF realisations
    itrf = {(t.from_datum, t.to_datum): (n, t) for n, t in cat if t.from_datum.startswith('ITRF') and t.to_datum.startswith('ITRF') and '_vel' not in n
            and isinstance(t.ref_epoch, datetime.date)}
    frames = sorted(set(a for a, _ in itrf) | set(b for _, b in itrf))
    epochs = sorted(set(t.ref_epoch for _, t in itrf.values()))

    def at(t, ep, k):
        yrs = Fr((ep - t.ref_epoch).days) / Fr(36525, 100)          # the SPECIFICATION's propagation: p + rate * days/365.25
        return dec(getattr(t, k)) + dec(getattr(t, 'd_' + k)) * yrs
    fails = []
    ntr = 0
    for A, B_, Cc in itertools.permutations(frames, 3):
        if (A, B_) in itrf and (B_, Cc) in itrf and (A, Cc) in itrf:
            ntr += 1
            (n1, t1), (n2, t2), (n3, t3) = itrf[(A, B_)], itrf[(B_, Cc)], itrf[(A, Cc)]
            for ep in epochs:
                for k in PARAMS:
                    d = at(t1, ep, k) + at(t2, ep, k) - at(t3, ep, k)
                    dr = dec(getattr(t1, 'd_' + k)) + dec(getattr(t2, 'd_' + k)) - dec(getattr(t3, 'd_' + k))
                    # tolerance: three published roundings (0.05 units each) at the epoch plus their rates over the span
                    span = max(abs(Fr((ep - t.ref_epoch).days) / Fr(36525, 100)) for t in (t1, t2, t3))
                    if abs(d) > TOL[k] * (1 + span) or abs(dr) > TOL[k]:
                        fails.append((n1, n2, n3, ep.isoformat(), k, float(d), float(dr)))
    via = {}
    for f in fails:
        for n in f[:3]:
            via[n] = via.get(n, 0) + 1
    P.oblige('catalogue.chain', 'constants (catalogue)', '%d ordered triples x %d epochs x 7 parameters and rates (exhaustive)' % (ntr, len(epochs)),
             dict(result='discharged' if not fails and ntr >= 300 else 'sat', backend='exhaustive enumeration, exact rationals', ms=0, model=None), strict=True,
             refute=(lambda w: dict(call='%s + %s vs %s at %s, parameter %s' % fails[0][:5], observed=fails[0][5:], expected='|chain - direct| <= 0.15 mm / 0.015 ppb / 0.015 mas (and per year)',
                                    failing_entries=len(fails), sets_involved=sorted(via.items(), key=lambda kv: -kv[1])[:5])) if fails else None, pool=[{}],
             note='chained parameters brought to a common epoch with the specification\'s linear propagation equal the direct ones within the published rounding')

    # ---------------------------------------------------------------- iers2trans: units and signs, for all real inputs
    names = ('tx', 'ty', 'tz', 'sc', 'rx', 'ry', 'rz', 'd_tx', 'd_ty', 'd_tz', 'd_sc', 'd_rx', 'd_ry', 'd_rz')
    args = [real('i_' + n) for n in names]
    ep = datetime.date(2010, 1, 1)
    paths = E.explore(lambda: C.iers2trans('itrfA', 'itrfB', ep, *args))
    if len(paths) != 1 or paths[0]['kind'] != 'ret':
        raise S.EngineError('iers2trans: unexpected paths')
    t = paths[0]['val']
    r8 = S.round_uf(8)
    ok = (t.from_datum, t.to_datum, t.ref_epoch, t.tf_sd) == ('itrfA', 'itrfB', ep, None)
    res_all = []
    for n, a in zip(names, args):
        sign = -1 if n.endswith(('rx', 'ry', 'rz')) else 1
        res_all.append(E.prove_eq(lift(getattr(t, n)), r8(sign * a.t / 1000), []))
    ok = ok and all(r['result'] == 'discharged' for r in res_all)
    P.oblige('iers2trans.units_signs', 'constants.iers2trans', 'all real inputs', dict(result='discharged' if ok else 'sat', backend=E.Z3V, ms=sum(r['ms'] for r in res_all)), strict=True,
             note='mm -> m, ppb -> ppm, mas -> arcsec (round8(v/1000)); rotations and rotation rates with reversed sign; labels and epoch stored as given')

    # ---------------------------------------------------------------- __add__ keeps labels and rates (shared with C07); __neg__ contract
    ref, to = S.integer('ref_ord'), S.integer('to_ord')
    T = C.Transformation('FROM', 'TO', GhostDate(ref), *[real(k) for k in ALL14])
    with E.rebound(C, date=GhostDate):
        N = T + GhostDate(to)
    okl = N is not None and (N.from_datum, N.to_datum) == ('FROM', 'TO') and all(getattr(N, k) is getattr(T, k) for k in RATES)
    P.oblige('Transformation.__add__.labels_and_rates_kept', 'constants.Transformation.__add__', 'all', dict(result='discharged' if okl else 'sat', backend='object identity', ms=0), strict=True)
    n_ = -T
    okn = (n_.from_datum, n_.to_datum) == ('TO', 'FROM') and n_.ref_epoch is T.ref_epoch and all(z3.is_true(z3.simplify(lift(getattr(n_, k)) == -lift(getattr(T, k)))) for k in ALL14)
    P.oblige('Transformation.__neg__.contract', 'constants.Transformation.__neg__', 'all', dict(result='discharged' if okn else 'sat', backend='syntactic', ms=0), strict=True)
    P.notes.append('exhaustive: %d sets, %d reverse pairs, %d ITRF triples, %d reference epochs' % (len(cat), npairs, ntr, len(epochs)))
    # bounded section: the catalogue clauses above ARE exhaustive; random IERS tuples for the unit conversion run natively
    rng = P.rng
    fl = []
    n = 0
    for _ in range(300):
        vals = [round(rng.uniform(-100, 100), rng.choice([1, 2, 3])) for _ in range(14)]
        tt = C.iers2trans('a', 'b', ep, *vals)
        n += 1
        for nm, v in zip(names, vals):
            sign = -1 if nm.endswith(('rx', 'ry', 'rz')) else 1
            if abs(getattr(tt, nm) - sign * v / 1000) > 5.1e-9:
                fl.append(dict(input=dict(field=nm, value=v, values=list(vals)), what='iers2trans unit/sign conversion', got=getattr(tt, nm)))
    P.bounded_result('C11.B.iers2trans', 'constants.iers2trans', n, n, 'random IERS-style tuples (mm, ppb, mas with 1-3 decimals): stored value = +-v/1000 within the 8-decimal rounding', [dict(values='random')], fl)
    P.finish('proof')


def replay(d):
    """bounded record of the unit conversion: the recorded 14-tuple is converted again on the current tree"""
    fi = d.get('failing_input') or {}
    inp = fi.get('input', fi)
    if d.get('layer') == 'B' and isinstance(inp, dict) and 'values' in inp:
        import datetime
        import geodepy.constants as C
        names14 = ('tx', 'ty', 'tz', 'sc', 'rx', 'ry', 'rz', 'd_tx', 'd_ty', 'd_tz', 'd_sc', 'd_rx', 'd_ry', 'd_rz')
        tt = C.iers2trans('a', 'b', datetime.date(2010, 1, 1), *inp['values'])
        for nm, v in zip(names14, inp['values']):
            sign = -1 if nm.endswith(('rx', 'ry', 'rz')) else 1
            if abs(getattr(tt, nm) - sign * v / 1000) > 5.1e-9:
                return dict(input=inp, what='iers2trans unit/sign conversion', field=nm, observed=getattr(tt, nm), expected=sign * v / 1000)
        return None
    return dict(note='no per-input replay', input=inp)
