"""C20 - the HTTP API returns exactly what the library computes.
Functions under contract: api.app.handle_vincinv, handle_vincdir, list_routes (ghost request / jsonify; library calls
summarised)."""
import z3, ast, os
from vp import engine as E, sym as S, bounded as B
from vp.report import Prop
from vp.sym import Sym, lift, real
from .common import *

HP2DEC = z3.Function('API_HP2DEC', S.R, S.R)
DEC2HP = z3.Function('API_DEC2HP', S.R, S.R)


class GhostArgs:
    def __init__(self, present):
        self.present = present
        self.reads = []

    def get(self, name, default=None, type=None):
        self.reads.append((name, type))
        if name in ('from_angle_type', 'to_angle_type'):
            return self.present.get(name, default)
        if type is not float and type is not S.SFloat:
            raise S.EngineError('query field %s read without type=float' % name)
        return real('q_' + name)


class GhostRequest:
    def __init__(self, present):
        self.args = GhostArgs(present)


def main():
    P = Prop('C20')
    mods = E.load_repo(ALL + ('api.app',))
    app, ang, gd = mods['api.app'], mods['geodepy.angles'], mods['geodepy.geodesy']
    # tables: checked on the real module before any rebinding
    t1, t2 = app.angle_type_to_dd, app.dd_to_angle_type
    s = real('probe')
    okt = set(t1) == {'dd', 'dms'} and set(t2) == {'dd', 'dms'} and t1['dms'] is ang.hp2dec and t2['dms'] is ang.dec2hp and t1['dd'](s) is s and t2['dd'](s) is s \
        and app.vincinv is gd.vincinv and app.vincdir is gd.vincdir
    P.oblige('tables.entries', 'api.app (dispatch tables)', 'module', dict(result='discharged' if okt else 'sat', backend='object identity on the real module', ms=0), strict=True,
             note="angle_type_to_dd['dms'] is hp2dec, dd_to_angle_type['dms'] is dec2hp, both 'dd' entries are the identity, vincinv/vincdir are the library functions")
    ident = lambda v: v
    tab_in = {'dd': ident, 'dms': lambda v: Sym(HP2DEC(lift(v)))}
    tab_out = {'dd': ident, 'dms': lambda v: Sym(DEC2HP(lift(v)))}
    spec_in = {'dd': lambda t: t, 'dms': lambda t: HP2DEC(t), None: lambda t: t}
    spec_out = {'dd': lambda t: t, 'dms': lambda t: DEC2HP(t), None: lambda t: t}
    VI = [z3.Function('LIB_vincinv_%d' % i, *([S.R] * 5)) for i in range(3)]
    VD = [z3.Function('LIB_vincdir_%d' % i, *([S.R] * 5)) for i in range(3)]
    calls = {}

    def vinv_stub(*a, **kw):
        calls['vincinv'] = (a, kw)
        return tuple(Sym(f(*[lift(x) for x in a])) for f in VI)

    def vdir_stub(*a, **kw):
        calls['vincdir'] = (a, kw)
        return tuple(Sym(f(*[lift(x) for x in a])) for f in VD)
    eps = {'vincinv': (app.handle_vincinv, ('lat1', 'lon1', 'lat2', 'lon2'), (True, True, True, True), ('ell_dist', 'azimuth1to2', 'azimuth2to1'), (False, True, True), VI),
           'vincdir': (app.handle_vincdir, ('lat1', 'lon1', 'azimuth1to2', 'ell_dist'), (True, True, True, False), ('lat2', 'lon2', 'azimuth2to1'), (True, True, True), VD)}
    for name, (handler, fields, f_ang, outs, o_ang, FN) in eps.items():
        for fa in ('dd', 'dms', None):
            for ta in ('dd', 'dms', None):
                present = {}
                if fa:
                    present['from_angle_type'] = fa
                if ta:
                    present['to_angle_type'] = ta
                req = GhostRequest(present)
                with E.rebound(app, request=req, jsonify=ident, angle_type_to_dd=tab_in, dd_to_angle_type=tab_out, vincinv=vinv_stub, vincdir=vdir_stub):
                    pth = E.explore(lambda: handler())
                tag = 'from=%s,to=%s' % (fa or 'absent', ta or 'absent')
                ok = len(pth) == 1 and pth[0]['kind'] == 'ret'
                body = status = None
                if ok:
                    body, status = pth[0]['val']
                    ok = status == 200 and isinstance(body, dict) and set(body) == set(outs)
                if ok:
                    args = [spec_in[fa](z3.Real('q_' + f)) if isang else z3.Real('q_' + f) for f, isang in zip(fields, f_ang)]
                    a, kw = calls[name]
                    ok = not kw and len(a) == len(fields) and all(z3.is_true(z3.simplify(lift(x) == y)) for x, y in zip(a, args))
                    for k, (o, isang) in enumerate(zip(outs, o_ang)):
                        want = FN[k](*args)
                        want = spec_out[ta](want) if isang else want
                        ok = ok and z3.is_true(z3.simplify(lift(body[o]) == want))
                    # every numeric field is read exactly once with type=float
                    rd = [n for n, t in req.args.reads if n not in ('from_angle_type', 'to_angle_type')]
                    ok = ok and sorted(rd) == sorted(fields)
                P.oblige('handle_%s.wiring' % name, 'api.app.handle_%s' % name, tag, dict(result='discharged' if ok else 'sat', backend='symbolic execution + syntactic term identity', ms=0), strict=True,
                         note='response = {%s} of lib(%s) with hp2dec on angle inputs iff from_angle_type == dms and dec2hp on angle outputs iff to_angle_type == dms; distances never converted; status 200' % (
                             ', '.join(outs), ', '.join(fields)))
    P.summaries += ['vincinv, vincdir (contracts C04/C05), hp2dec, dec2hp (C08) summarised by uninterpreted functions of their actual arguments']
    # index route: every @app.route in the source is listed by the real url_map (finite, exhaustive)
    tree = ast.parse(open(os.path.join(E.REPO, 'api', 'app.py')).read())
    routes = []
    for n in ast.walk(tree):
        if isinstance(n, ast.FunctionDef):
            for d in n.decorator_list:
                if isinstance(d, ast.Call) and isinstance(d.func, ast.Attribute) and d.func.attr == 'route' and d.args and isinstance(d.args[0], ast.Constant):
                    routes.append(d.args[0].value)
    with app.app.test_request_context('/'):
        listed = app.list_routes()
    okr = len(routes) >= 3 and all(repr(r) in listed or ("'%s'" % r) in listed for r in routes)
    P.oblige('list_routes.complete', 'api.app.list_routes', '%d routes (exhaustive)' % len(routes), dict(result='discharged' if okr else 'sat', backend='native execution + AST scan', ms=0), strict=True,
             note='index lists %s; source declares %s' % (listed, routes))
    P.assumptions.append('Flask routing, query-string parsing (type=float) and JSON encoding are executed, not modelled: covered by the bounded layer through the Flask test client')
    B.report(P, 'bounded.C20')
    P.finish('proof')


def replay(d):
    from bounded import C20 as b
    fi = d.get('failing_input') or {}
    return b.replay_case(d.get('check'), fi.get('input', fi))
