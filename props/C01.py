"""C01 - forward grid conversion is the exact Transverse Mercator of the ellipsoid.
Functions under contract: constants.Ellipsoid.__init__, convert.rect_radius, convert.alpha_coeff, convert.geo2grid
(psfandgridconv summarised - its own contract is C10), angles.angular_typecheck (through the angle-object runs)."""
import z3, random
from fractions import Fraction as Fr
import mpmath as mp
from vp import engine as E, sym as S, bounded as B
from vp.report import Prop
from vp.sym import Sym, UF, PI, lift, real
from spec.M import MSym
from spec import tm as TM
from .common import *
from . import tmlib as L

ISG_ZONES = (541, 542, 543, 551, 552, 553, 561, 562, 563, 572)


def Q(fr):
    return z3.Q(fr.numerator, fr.denominator)


def zpoly(coefs, n):
    r = z3.RealVal(0)
    for c in reversed(coefs):
        r = r * n + Q(Fr(c))
    return r


def ellipsoid_invariant(P, C, ell):
    a, invf = lift(ell.semimaj), lift(ell.inversef)
    f = 1 / invf
    spec = dict(f=f, semimin=a * (1 - f), ecc1sq=f * (2 - f), ecc2sq=(f * (2 - f)) / (1 - f * (2 - f)), ecc1=UF['sqrt'](f * (2 - f)),
                n=f / (2 - f), n2=(f / (2 - f)) * (f / (2 - f)))
    for k, v in spec.items():
        code = lift(getattr(ell, k))
        P.oblige('Ellipsoid.invariant.' + k, 'constants.Ellipsoid.__init__', 'all', E.prove_eq(code, v, valid_ellipsoid(ell)), code=code, spec=v)


def coefficient_tables(P, cv, C, ell, which=('rect', 'alpha')):
    """tolerance-form obligations for the Krueger tables against the first-principles series (DESIGN 2.5)"""
    K = TM.kruger()
    n = z3.Real('n')
    box = [n >= z3.Q(1, 799), n <= z3.Q(1, 299)]          # 1/f in [150, 400]  <=>  n = 1/(2/f - 1) in [1/799, 1/299]
    nterm = lift(ell.n)
    if 'rect' in which:
        code = lift(cv.rect_radius(ell))
        a = lift(ell.semimaj)
        f = 1 / lift(ell.inversef)
        nn = f / (2 - f)
        spec = a / (1 + nn) * zpoly(K['A_times_1pn'], nn)
        # exact rational-function identity in (a, 1/f); the first-principles series of A/a times (1+n) truncated at n^8
        c2 = z3.substitute(code, (nterm, n))
        s2 = lift(ell.semimaj) / (1 + n) * zpoly(K['A_times_1pn'], n)
        res = E.prove(z3.And(c2 - s2 <= z3.Q(1, 10 ** 9), s2 - c2 <= z3.Q(1, 10 ** 9)), box + valid_ellipsoid(ell), use_axioms=False)
        P.oblige('rect_radius.value', 'convert.rect_radius', 'all', res, strict=True,
                 note='|code - a/(1+n)(1+n^2/4+n^4/64+n^6/256+25n^8/16384)| <= 1e-9 m for n in [1/799,1/299]; series derived from the meridian integral')
        P.oblige('rect_radius.n_consistent', 'convert.rect_radius', 'all',
                 dict(result='discharged' if not z3.eq(c2, code) else 'sat', backend='structural: private n is the term of ellipsoid.n', ms=0), strict=True,
                 note='the n computed inside rect_radius is (1/invf)/(2-1/invf) = ellipsoid.n')
    for name, fn, key in (('alpha', cv.alpha_coeff, 'alpha'), ('beta', cv.beta_coeff, 'beta')):
        if name not in which:
            continue
        vals = fn(ell)
        for j in range(1, 9):
            code = z3.substitute(lift(vals[j - 1]), (nterm, n))
            spec = zpoly(K[key][j], n) * (-1 if name == 'beta' else 1)      # GeodePy's b_j = -beta_j (xi' = xi + sum b_j ...)
            # error budget: 1 micrometre on the ground in total at 30 deg from the central meridian (eta' <= 0.55):
            # eps_j = 1e-6 / (8 * 6.4e6 * cosh(2 j 0.55))
            eps = Fr(1, 10 ** 6) / (8 * 6400000 * Fr(str(round(float(mp.cosh(2 * j * 0.55)), 3))))
            res = E.prove(z3.And(code - spec <= Q(eps), spec - code <= Q(eps)), box, use_axioms=False)

            def refute(w, j=j, name=name, fn=fn, key=key):
                nv = w.get('n')
                if nv is None or not (1 / 799 <= nv <= 1 / 299):
                    return None
                invf = (1 / nv + 1) / 2
                got = fn(C.Ellipsoid(6378137.0, invf))[j - 1]
                mp.mp.dps = 40
                want = sum(mp.mpf(c.numerator) / c.denominator * mp.mpf(nv) ** k for k, c in enumerate(K[key][j])) * (-1 if name == 'beta' else 1)
                d = abs(mp.mpf(got) - want)
                if d > mp.mpf(eps.numerator) / eps.denominator * 2:
                    return dict(call='%s_coeff(Ellipsoid(6378137, %r))[%d]' % (name, invf, j - 1), observed=got, expected=float(want), deviation=float(d))
            P.oblige('%s_coeff.%s%d' % (name, name[0], 2 * j), 'convert.%s_coeff' % name, 'all', res, strict=True, refute=refute,
                     pool=[dict(n=1 / 299), dict(n=1 / 599.5), dict(n=1 / 799)], symbols=('n',),
                     note='tolerance form vs first-principles Krueger series, eps=%.2e' % float(eps))


def main():
    P = Prop('C01')
    mods = E.load_repo(ALL)
    C, cv, ang = mods['geodepy.constants'], mods['geodepy.convert'], mods['geodepy.angles']
    ell = sym_ellipsoid(C)
    vell = valid_ellipsoid(ell)
    ellipsoid_invariant(P, C, ell)
    coefficient_tables(P, cv, C, ell, ('rect', 'alpha'))
    P.assumptions.append('assumed lemma (literature, checked numerically by Layer B against the exact projection): the Krueger series truncated at n^8 differs from the exact TM by < 1e-9 m within 30 deg of the central meridian for 1/f in [150,400]; sign(xi) = sign(latitude)')

    sm = L.make_summaries(cv)
    P.summaries += ['RECT(a,1/f) = rect_radius (contract: rect_radius.value)', 'ALPHA_j(a,1/f) = alpha_coeff (contracts alpha_coeff.a2..a16)',
                    'PSFGC(xi1,eta1,lat,lon,cm,conf_lat,a,1/f,fe,fn,k0,zw,icm) = psfandgridconv (contract: C10)']
    st = L.summary_terms(sm, ell)
    lat, lon = real('lat'), real('lon')
    dom = [lat.t >= -80, lat.t <= 84, lon.t >= -180, lon.t <= 180]

    # ------------------------------------------------------------ validation: raises exactly outside the domain
    prj = sym_projection(C)
    vprj = valid_projection(prj)
    zone = S.integer('zone')
    paths = L.run_geo2grid(cv, sm, lat, lon, zone, ell, prj, vell + vprj + [S.is_int(zone.t)])
    inside = z3.And(zone.t >= 0, zone.t <= 60, lat.t >= -80, lat.t <= 84, lon.t >= -180, lon.t <= 180)
    ok = True
    bad = None
    for p in paths:
        s = z3.Solver()
        s.add(S.is_int(zone.t), *p['pc'])
        if p['kind'] == 'raise':
            if p['val'][0] != 'ValueError':
                ok, bad = False, p['val']
            s.add(inside)
        else:
            s.add(z3.Not(inside))
        if s.check() != z3.unsat:
            ok, bad = False, (p['kind'], p['decisions'])
    P.oblige('geo2grid.validation', 'convert.geo2grid', '%d paths' % len(paths),
             dict(result='discharged' if ok and len(paths) >= 8 else 'sat', backend=E.Z3V, ms=0), strict=True,
             note='ValueError exactly when zone not in 0..60 or lat outside [-80,84] or lon outside [-180,180]; no other exception; %r' % (bad,))

    # ------------------------------------------------------------ refutation on the real code: exact TM oracle
    from bounded import C01 as BB

    def refute_tm(prj_, zone_):
        def f(w):
            if not (-80 <= w.get('lat', 99) <= 84 and 6.3e6 <= w.get('a', 0) <= 6.4e6 and 150 <= w.get('invf', 0) <= 400):
                return None
            pj = prj_ if isinstance(prj_.cmscale, (int, float)) else C.Projection(w.get('fe', 500000.0), w.get('fn', 1e7), w.get('k0', 0.9996), w.get('zw', 6.0), w.get('icm', -177.0))
            zn = zone_ if isinstance(zone_, int) else int(w.get('zone', 0))
            isg = pj is C.isg
            cm = BB._cm(pj, zn, isg) if zn else None
            lon_ = w['lon'] if 'lon' in w else 0.0
            if cm is not None and 'dlon' in w:
                lon_ = cm + w['dlon']
            if not -180 <= lon_ <= 180:
                return None
            if cm is not None and abs(lon_ - cm) > 30:
                return None
            try:
                fl, inp = BB.check_point(cv, C, float(w['lat']), float(lon_), zn, C.Ellipsoid(w['a'], w['invf']), pj)
            except ValueError:
                return None
            return fl
        return f
    tm_pool = [dict(lat=la, dlon=dl, lon=lo, zone=zn, a=e_.semimaj, invf=e_.inversef, fe=300000.0, fn=5e6, k0=0.99994, zw=zw, icm=-177.0)
               for e_ in (C.Ellipsoid(6310000.0, 151.0), C.ans, C.grs80) for la in (-47.3, 61.2, 0.0) for dl, lo, zn, zw in ((2.9, 100.1, 30, 6.0), (-25.0, -40.0, 12, 2.0))]

    # ------------------------------------------------------------ scenario runner
    def scenario(tag, prj_, zone_, pre, cm_spec=None, auto=False):
        paths = L.run_geo2grid(cv, sm, lat, lon, zone_, ell, prj_, pre)
        rets = [p for p in paths if p['kind'] == 'ret']
        if len(rets) != 2:
            raise S.EngineError('%s: expected 2 returning paths (hemispheres), got %r' % (tag, [(p['kind'], p['val'] if p['kind'] != 'ret' else '') for p in paths]))
        for p in rets:
            (hemi, zone_out, east, north, psf, gc), calls = p['val']
            call = calls[0]
            hy = pre + p['pc']
            cm_code = call['args'][4]
            ztag = tag + ':' + hemi
            cm_s = cm_spec(lift(zone_out)) if cm_spec else None
            if cm_s is not None:
                P.oblige('geo2grid.cm', 'convert.geo2grid', ztag, E.prove_eq(cm_code, cm_s, hy), code=cm_code, spec=cm_s, hyps=hy)
            cm_use = cm_s if cm_s is not None else cm_code
            es, ys, parts = L.spec_forward(lat, lon, cm_use, ell, prj_, st)
            # intermediate clauses, observed at the psfandgridconv call site
            P.oblige('geo2grid.conformal', 'convert.geo2grid', ztag, E.prove_eq(call['args'][5], UF['atan'](parts['taup']), hy),
                     code=call['args'][5], spec=UF['atan'](parts['taup']), hyps=hy)
            P.oblige('geo2grid.gauss_schreiber.xi', 'convert.geo2grid', ztag, E.prove_eq(call['args'][0], parts['xi1'], hy),
                     code=call['args'][0], spec=parts['xi1'], hyps=hy)
            P.oblige('geo2grid.gauss_schreiber.eta', 'convert.geo2grid', ztag, E.prove_eq(call['args'][1], parts['eta1'], hy),
                     code=call['args'][1], spec=parts['eta1'], hyps=hy)
            r4 = S.round_uf(4)
            P.oblige('geo2grid.east', 'convert.geo2grid', ztag, E.prove_eq(lift(east), r4(es), hy), code=lift(east), spec=r4(es), hyps=hy,
                     refute=refute_tm(prj_, zone_), pool=tm_pool, symbols=('lat', 'lon', 'a', 'invf', 'fe', 'fn', 'k0', 'zw', 'icm', 'zone'),
                     note='round4(k0 * A * (eta\' + sum alpha_j cos 2j xi\' sinh 2j eta\') + false easting) with the call\'s own A, alpha, k0, FE')
            south = hemi == 'South'
            ns = r4(ys + lift(prj_.falsenorth)) if south else r4(ys)
            P.oblige('geo2grid.north', 'convert.geo2grid', ztag, E.prove_eq(lift(north), ns, hy), code=lift(north), spec=ns, hyps=hy,
                     refute=refute_tm(prj_, zone_), pool=tm_pool, symbols=('lat', 'lon', 'a', 'invf', 'fe', 'fn', 'k0', 'zw', 'icm', 'zone'))
            # hemisphere rule: label and false northing follow the sign of the projected northing
            rule = (ys < 0) if south else (ys >= 0)
            A_ = E.Abstractor()
            H = A_.assume(hy)
            P.oblige('geo2grid.hemisphere_rule', 'convert.geo2grid', ztag, E.prove(A_.ab(rule), H + A_.side, use_axioms=False), strict=True,
                     refute=refute_tm(prj_, zone_), pool=tm_pool, goal=rule, hyps=hy,
                     note='South and false northing exactly when k0*A*xi < 0')
            if auto:
                zo = lift(zone_out)
                zw, icm = lift(prj_.zonewidth), lift(prj_.initialcm)
                if tag.startswith('utm'):
                    cmz = zo * zw + icm - zw
                    goal = z3.And(lon.t - cmz <= zw / 2, cmz - lon.t <= zw / 2, z3.Implies(lon.t < 180, z3.And(zo >= 1, zo <= 60)))
                    res = E.prove(goal, hy, use_axioms=False)
                else:
                    # zone = trunc(q), q = (lon - (icm - 1.5 zw))/zw.  Split so that no query mixes to_int with products:
                    qspec = (lon.t - (icm - z3.Q(3, 2) * zw)) / zw
                    r1 = E.prove_eq(zo, S.trunc(qspec), hy)                                       # the code's zone is trunc(q)
                    qv, zv = z3.Real('q_zone'), z3.Real('z_zone')
                    r2 = E.prove(z3.And(qv - S.trunc(qv) >= 0, qv - S.trunc(qv) < 1, S.trunc(qv) >= 1), [qv >= 1], use_axioms=False)
                    cmz = zv * zw + icm - zw
                    r3 = E.prove(z3.And(lon.t - cmz <= zw / 2, cmz - lon.t <= zw / 2),
                                 [c for c in hy if len(E.subterms([c])) < 40] + [qv * zw == lon.t - icm + z3.Q(3, 2) * zw, qv - zv >= 0, qv - zv < 1], use_axioms=False)
                    r4 = E.prove(qv >= 1, [c for c in hy if len(E.subterms([c])) < 40] + [qv * zw == lon.t - icm + z3.Q(3, 2) * zw], use_axioms=False)
                    allok = all(r['result'] == 'discharged' for r in (r1, r2, r3, r4))
                    res = dict(result='discharged' if allok else [r['result'] for r in (r1, r2, r3, r4)].__str__(), backend=E.Z3V,
                               ms=sum(r['ms'] for r in (r1, r2, r3, r4)))
                P.oblige('geo2grid.zone_auto', 'convert.geo2grid', ztag, res, strict=True,
                         note='|lon - cm(zone)| <= zonewidth/2 and zone >= 1; UTM: zone in 1..60 for lon in [-180,180)')
            # wiring of the scale-factor call is C10's obligation; here: results are the summary's outputs, rounded
            ok_w = z3.is_true(z3.simplify(z3.And(lift(psf) == S.round_uf(8)(call['outs'][0].t), lift(gc) == call['outs'][1].t)))
            P.oblige('geo2grid.psf_outputs', 'convert.geo2grid', ztag, dict(result='discharged' if ok_w else 'sat', backend='syntactic', ms=0), strict=True)
        return paths

    # general projection, explicit symbolic zone
    zone = S.integer('zone')
    pre = vell + vprj + dom + [S.is_int(zone.t), zone.t >= 1, zone.t <= 60]
    cmf = lambda z_: z_ * lift(prj.zonewidth) + lift(prj.initialcm) - lift(prj.zonewidth)
    paths_gen = scenario('general,explicit zone', prj, zone, pre, cm_spec=cmf)
    # general projection, automatic zone (precondition: lon not west of the first zone)
    pre = vell + vprj + dom + [lon.t >= lift(prj.initialcm) - lift(prj.zonewidth) / 2,
                               lon.t <= lift(prj.initialcm) + lift(prj.zonewidth) * 59]
    scenario('general,auto zone', prj, 0, pre, cm_spec=None, auto=True)
    # the shipped UTM object, automatic zone
    pre = vell + dom
    scenario('utm,auto zone', C.utm, 0, pre, cm_spec=None, auto=True)
    # the shipped ISG object, each of its ten zones (zone arithmetic with string slicing executed natively)
    for zn in ISG_ZONES:
        amg, sub = zn // 10, zn % 10
        cm_isg = z3.RealVal((amg - 1) * 6 - 177 + (sub - 2) * 2)
        scenario('isg,zone %d' % zn, C.isg, zn, vell + dom, cm_spec=lambda z_, c=cm_isg: c)

    # ------------------------------------------------------------ conformal latitude: Karney's tau' is sinh(asinh tau - e atanh(e sin phi))
    tau, e_ = z3.Real('tau'), z3.Real('ecc')
    sg = z3.Real('sigma')          # sigma = sinh(B), B = e atanh(e tau / sqrt(1+tau^2))
    sA, cA, sB, cB = tau, UF['sqrt'](1 + tau * tau), sg, UF['sqrt'](1 + sg * sg)
    # sinh(A-B) = sinh A cosh B - cosh A sinh B with sinh A = tau (A = asinh tau), cosh^2 - sinh^2 = 1, cosh > 0
    lhs = tau * UF['sqrt'](1 + sg * sg) - sg * UF['sqrt'](1 + tau * tau)
    P.oblige('geo2grid.conformal_definition', 'convert.geo2grid', 'lemma',
             E.prove_abs(z3.And(cA * cA - sA * sA == 1, cB * cB - sB * sB == 1, cA > 0, cB > 0, lhs == sA * cB - cA * sB), []), strict=True,
             note='tau\' = tau sqrt(1+sigma^2) - sigma sqrt(1+tau^2) is the addition formula sinh(A-B) with sinh A = tan(phi), sinh B = sigma: '
                  'chi = gd(gd^-1(phi) - e atanh(e sin phi)); the hyperbolic addition formula itself is an axiom (trusted)')
    P.assumptions.append('conformal-latitude definition: hyperbolic addition formula sinh(A-B) = sinh A cosh B - cosh A sinh B and atanh(x) = log((1+x)/(1-x))/2, asinh(x) = log(x+sqrt(1+x^2)) are trusted identities')

    # ------------------------------------------------------------ angle-object arguments
    for cls in ('DECAngle', 'GONAngle'):
        mk = getattr(ang, cls)
        o1, o2 = (mk(lat), mk(lon)) if cls == 'DECAngle' else (mk(lat * 10 / 9), mk(lon * 10 / 9))
        pa = L.run_geo2grid(cv, sm, o1, o2, 0, ell, C.utm, vell + dom)
        pb = L.run_geo2grid(cv, sm, o1.dec(), o2.dec(), 0, ell, C.utm, vell + dom)
        ra, rb = [p for p in pa if p['kind'] == 'ret'], [p for p in pb if p['kind'] == 'ret']
        same = len(ra) == len(rb) == 2 and all(
            x['val'][0][0] == y['val'][0][0] and z3.is_true(z3.simplify(z3.And(*[lift(u) == lift(v) for u, v in zip(x['val'][0][1:], y['val'][0][1:])])))
            for x, y in zip(ra, rb))
        P.oblige('geo2grid.angle_objects', 'convert.geo2grid', cls, dict(result='discharged' if same else 'sat', backend='syntactic term identity', ms=0), strict=True)

    # ------------------------------------------------------------ engine cross-check (summaries interpreted by the real helpers)
    def mkell(a, i):
        return C.Ellipsoid(float(a), float(i))
    real_psf, real_rect, real_alpha = cv.psfandgridconv, cv.rect_radius, cv.alpha_coeff
    uf_env = {'RECT!0': lambda a, i: mp.mpf(real_rect(mkell(a, i)))}
    for j in range(8):
        uf_env['ALPHA!%d' % j] = lambda a, i, j=j: mp.mpf(real_alpha(mkell(a, i))[j])
    for k in range(2):
        uf_env['PSFGC!%d' % k] = lambda *a, k=k: mp.mpf(real_psf(*[float(x) for x in a[:6]], mkell(a[6], a[7]), C.Projection(*[float(x) for x in a[8:]]))[k])
    rng = P.rng
    envs = []
    for _ in range(40):
        zw = rng.choice([6.0, 2.0, 3.0])
        zn = rng.randint(1, 60)
        icm = -177.0
        cm = zn * zw + icm - zw
        envs.append(dict(lat=rng.uniform(-80, 84), lon=max(-180, min(180, cm + rng.uniform(-3, 3))), zone=zn, a=rng.uniform(6.3e6, 6.4e6), invf=rng.uniform(150, 400),
                         fe=500000.0, fn=1e7, k0=rng.choice([0.9996, 0.99994, 1.0]), zw=zw, icm=icm))

    def native(w):
        r = cv.geo2grid(w['lat'], w['lon'], w['zone'], mkell(w['a'], w['invf']), C.Projection(w['fe'], w['fn'], w['k0'], w['zw'], w['icm']))
        return r
    pts, worst, cov = E.crosscheck(paths_gen, envs, native, flatten=lambda v: list(v[0]) if isinstance(v, tuple) and isinstance(v[0], tuple) else list(v),
                                   uf_env=uf_env, rel=1e-9)
    P.crosscheck(pts, worst, cov, len(paths_gen))

    if P.tier == 'thorough':
        # the specification's Krueger tables are re-derived from first principles and must equal the cached ones
        import subprocess, sys as _sys, json as _json, os as _os
        out_ = _os.path.join(_os.environ.get('VERIF_SCRATCH', '/var/tmp'), 'kruger_rederived.json')
        spec_dir = _os.path.join(_os.path.dirname(_os.path.dirname(_os.path.abspath(__file__))), 'spec')
        rr = subprocess.run([_sys.executable, _os.path.join(spec_dir, 'kruger_derive.py'), out_], capture_output=True, text=True, timeout=1800)
        same = rr.returncode == 0 and _json.load(open(out_)) == _json.load(open(_os.path.join(spec_dir, 'kruger_n8.json')))
        if not same:
            raise S.EngineError('specification self-check failed: re-derived Krueger series differ from spec/kruger_n8.json: %s' % rr.stderr[-300:])
        P.notes.append('thorough: Krueger alpha/beta/rectifying-radius series re-derived from first principles (spec/kruger_derive.py) and equal to the cached tables')
    # ---------------------------------------------------------------- the object API named as an observation point (props/coordlib.py)
    from . import coordlib
    m2 = E.load_repo(tuple(ALL) + ('geodepy.coord',))
    coordlib.wiring(P, m2, sym_ellipsoid(m2['geodepy.constants']), sym_projection(m2['geodepy.constants']), ('CoordGeo.tm', 'CoordCart.tm'))
    B.report(P, 'bounded.C01')
    P.finish('proof')


def replay(d):
    if (d.get('obligation') or '').startswith('Coord'):
        from . import coordlib
        return coordlib.replay_wiring(d['obligation'])
    from bounded import C01 as b
    fi = d.get('failing_input') or {}
    return b.replay_case(d.get('check'), fi.get('input', fi))
