"""C10 - point scale factor and grid convergence belong to the projection actually used.
Functions under contract: convert.psfandgridconv and its two call sites (geo2grid, grid2geo)."""
import z3
import mpmath as mp
from vp import engine as E, sym as S, bounded as B
from vp.report import Prop
from vp.sym import Sym, UF, PI, lift, real
from spec.M import MSym
from spec import tm as TM
from .common import *
from . import tmlib as L


def main():
    P = Prop('C10')
    mods = E.load_repo(ALL)
    C, cv = mods['geodepy.constants'], mods['geodepy.convert']
    ell = sym_ellipsoid(C)
    prj = sym_projection(C)
    vell, vprj = valid_ellipsoid(ell), valid_projection(prj)
    sm = L.make_summaries(cv)
    st = L.summary_terms(sm, ell)
    SY = ('lat', 'lon', 'a', 'invf', 'fe', 'fn', 'k0', 'zw', 'icm', 'zone', 'east', 'north')

    # native refuter: scale factor / convergence of the exact projection of THE CALL'S ellipsoid and projection
    def refute_fwd(w):
        try:
            e = C.Ellipsoid(w['a'], w['invf'])
            pj = C.Projection(w.get('fe', 500000.0), w.get('fn', 1e7), w.get('k0', 0.9996), w.get('zw', 6.0), w.get('icm', -177.0))
            zn = int(w.get('zone', 0)) or None
            if zn is None:
                return None
            cm = zn * pj.zonewidth + pj.initialcm - pj.zonewidth
            lon_ = cm + w.get('dlon', 1.7)
            if not (-80 <= w['lat'] <= 84 and -180 <= lon_ <= 180 and 6.3e6 <= w['a'] <= 6.4e6 and 150 <= w['invf'] <= 400 and 0.5 < pj.cmscale < 2):
                return None
            r = cv.geo2grid(float(w['lat']), float(lon_), zn, e, pj)
            k, g = TM.psf_gc_exact(float(w['lat']), float(lon_), cm, e.semimaj, e.inversef, pj.cmscale)
            if abs(mp.mpf(r[4]) - k) > mp.mpf('2e-8') or abs(mp.mpf(r[5]) - g) > mp.mpf('1e-9'):
                return dict(call='geo2grid(lat, lon, zone, Ellipsoid(a, invf), Projection(fe, fn, k0, zw, icm))[4:6]',
                            input=dict(lat=w['lat'], lon=lon_, zone=zn, a=w['a'], invf=w['invf'], prj=[pj.falseeast, pj.falsenorth, pj.cmscale, pj.zonewidth, pj.initialcm]),
                            observed=[r[4], r[5]], expected=[float(k), float(g)])
        except (ValueError, KeyError):
            return None
    pool = [dict(lat=la, dlon=dl, zone=zn, a=a, invf=i, fe=300000.0, fn=5e6, k0=k0, zw=2.0, icm=-177.0)
            for (a, i) in ((6378160.0, 298.25), (6310000.0, 151.0)) for la in (-33.0, 41.0) for dl in (0.9, -0.7) for zn in (150, 20) for k0 in (0.99994,)]

    # ---------------------------------------------------------------- psfandgridconv against its own arguments
    xi1, eta1, lat, lon, cm, chi = [real(n) for n in ('xi1', 'eta1', 'lat', 'lon', 'cm', 'chi')]
    # chi is a (conformal) LATITUDE: strictly between -90 and 90 degrees; xi', eta' are the Gauss-Schreiber coordinates of a point within 30 deg of the central meridian
    pre = vell + vprj + [lat.t >= -80, lat.t <= 84, lon.t >= -180, lon.t <= 180, chi.t > z3.Q(-157, 100), chi.t < z3.Q(157, 100), cm.t >= -180, cm.t <= 180,
                         xi1.t >= -2, xi1.t <= 2, eta1.t >= -1, eta1.t <= 1]
    sm2 = dict(rect_radius=sm['rect_radius'], alpha_coeff=sm['alpha_coeff'])
    with E.rebound(cv, **sm2):
        paths = E.explore(lambda: cv.psfandgridconv(xi1, eta1, lat, lon, cm, chi, ell, prj), pre)
    if len(paths) < 3 or any(p['kind'] != 'ret' for p in paths):
        raise S.EngineError('psfandgridconv: unexpected paths %r' % [(p['kind'], p['decisions']) for p in paths])
    a_, invf_ = L.ell_flat(ell)
    f_ = 1 / invf_
    e2 = f_ * (2 - f_)
    phi = lat.t * PI / 180
    om = (lon.t - cm.t) * PI / 180
    p_, q_ = TM.series_dpq(xi1.t, eta1.t, st['alpha'], MSym)
    tanphi, tanchi = UF['tan'](phi), UF['tan'](chi.t)
    # Karney 2011 eqs 25-27: k = k0 * (A/a) sqrt(p^2+q^2) * sqrt(1+tan^2 phi) sqrt(1-e^2 sin^2 phi) / sqrt(tan^2 chi + cos^2 omega)
    kspec = (lift(prj.cmscale) * (st['A'] / a_) * UF['sqrt'](q_ * q_ + p_ * p_)
             * (UF['sqrt'](1 + tanphi * tanphi) * UF['sqrt'](1 - e2 * UF['sin'](phi) * UF['sin'](phi))) / UF['sqrt'](tanchi * tanchi + UF['cos'](om) * UF['cos'](om)))
    absx = lambda x: z3.If(x >= 0, x, -x)
    gmag = (UF['atan'](absx(q_ / p_)) + UF['atan'](absx(tanchi * UF['tan'](om)) / UF['sqrt'](1 + tanchi * tanchi))) * 180 / PI
    for i, p in enumerate(paths):
        tag = 'path%d:%s' % (i, ''.join('T' if d else 'F' for d in p['decisions']))
        hy = pre + p['pc']
        k, g = lift(p['val'][0]), lift(p['val'][1])
        P.oblige('psfandgridconv.psf', 'convert.psfandgridconv', tag, E.prove_eq(k, kspec, hy), code=k, spec=kspec, hyps=hy,
                 note='Karney 2011 eqs 25-27 with the derivative series, rectifying radius, eccentricity and central scale of ITS OWN ellipsoid/projection arguments')
        # magnitude and sign rule (grid bearing = azimuth + convergence: negative east of the central meridian in the north
        # and west of it in the south, positive in the other two quadrants)
        # "east of the central meridian" is a statement about meridians, not numbers: the difference is reduced to [-180, 180)
        # (zone 60 holds longitudes written as -180..-177+; zone 1 those written as 177..180)
        w_ = lon.t - cm.t + 180
        dred = w_ - 360 * z3.ToReal(z3.ToInt(w_ / 360)) - 180
        neg = z3.Or(z3.And(dred > 0, lat.t > 0), z3.And(dred < 0, lat.t < 0))
        A_ = E.Abstractor()
        H = A_.assume(hy)
        ga, gm = A_.ab(g), A_.ab(gmag)
        goal = z3.And(z3.Implies(A_.ab(neg), ga == -gm), z3.Implies(z3.Not(A_.ab(neg)), ga == gm))
        P.oblige('psfandgridconv.gridconv_sign_and_magnitude', 'convert.psfandgridconv', tag, E.prove(goal, H + A_.side, use_axioms=False), strict=True,
                 goal=z3.And(z3.Implies(neg, g == -gmag), z3.Implies(z3.Not(neg), g == gmag)), hyps=hy,
                 refute=None, note='|gc| = atan|q/p| + atan(|tan chi tan omega|/sqrt(1+tan^2 chi)) in degrees; sign by quadrant')
    # zero on the central meridian: omega = 0 and eta' = 0 (the call sites establish eta' = 0 there) => q = 0 and tan(omega) = 0
    with E.rebound(cv, **sm2):
        pz = E.explore(lambda: cv.psfandgridconv(xi1, Sym(z3.RealVal(0)), lat, cm, cm, chi, ell, prj), pre)
    okz = all(p['kind'] == 'ret' for p in pz) and all(E.prove_eq(lift(p['val'][1]), z3.RealVal(0), pre + p['pc'])['result'] == 'discharged' for p in pz)
    P.oblige('psfandgridconv.gridconv_zero_on_central_meridian', 'convert.psfandgridconv', 'lon == cm, eta1 == 0',
             dict(result='discharged' if okz else 'sat', backend=E.Z3V + ' after abstraction rewrite (sinh 0 = 0, tan 0 = 0, atan 0 = 0)', ms=0), strict=True)
    with E.rebound(cv, **sm2):
        pz = E.explore(lambda: cv.psfandgridconv(Sym(z3.RealVal(0)), eta1, Sym(z3.RealVal(0)), lon, cm, Sym(z3.RealVal(0)), ell, prj), pre)
    okz = all(p['kind'] == 'ret' for p in pz) and all(E.prove_eq(lift(p['val'][1]), z3.RealVal(0), pre + p['pc'])['result'] == 'discharged' for p in pz)
    P.oblige('psfandgridconv.gridconv_zero_on_equator', 'convert.psfandgridconv', 'lat == 0, xi1 == 0, chi == 0',
             dict(result='discharged' if okz else 'sat', backend=E.Z3V + ' after abstraction rewrite (sin 0 = 0, tan 0 = 0, atan 0 = 0)', ms=0), strict=True)
    P.assumptions.append('not proved (decided by Layer B against the complex derivative of the exact projection): that the analytic expressions equal the local length ratio / meridian direction of the exact projection, and that q/p and tan(chi)tan(omega) have equal signs (series dominance)')

    # ---------------------------------------------------------------- call site: geo2grid
    la, lo = real('lat'), real('lon')
    zone = S.integer('zone')
    dom = [la.t >= -80, la.t <= 84, lo.t >= -180, lo.t <= 180, S.is_int(zone.t), zone.t >= 1, zone.t <= 60]
    own = L.ell_flat(ell) + L.prj_flat(prj)
    names = ('a', '1/f', 'false easting', 'false northing', 'central scale', 'zone width', 'initial cm')

    def wiring(tag, fn, call, hy, extra=()):
        for k, (got, want) in enumerate(zip(call['args'][6:], own)):
            res = E.prove(got == want, E.small(hy), timeout=10000, use_axioms=False)
            P.oblige('%s.psf_wiring.%s' % (fn, names[k].replace(' ', '_')), 'convert.' + fn, tag, res, strict=True, refute=refute_fwd, pool=pool, symbols=SY,
                     note='the scale-factor routine receives the call\'s own %s' % names[k])
    paths = L.run_geo2grid(cv, sm, la, lo, zone, ell, prj, vell + vprj + dom)
    rets = [p for p in paths if p['kind'] == 'ret']
    assert len(rets) == 2
    for p in rets:
        (hemi, zo, east, north, psf, gc), calls = p['val']
        call = calls[0]
        hy = vell + vprj + dom + p['pc']
        tag = 'explicit zone:' + hemi
        wiring(tag, 'geo2grid', call, hy)
        cmz = zone.t * lift(prj.zonewidth) + lift(prj.initialcm) - lift(prj.zonewidth)
        for nm, got, want in (('lat', call['args'][2], la.t), ('lon', call['args'][3], lo.t), ('cm', call['args'][4], cmz)):
            P.oblige('geo2grid.psf_wiring.' + nm, 'convert.geo2grid', tag, E.prove_eq(got, want, hy), code=got, spec=want, hyps=hy)
        ok = z3.is_true(z3.simplify(z3.And(lift(psf) == S.round_uf(8)(call['outs'][0].t), lift(gc) == call['outs'][1].t)))
        P.oblige('geo2grid.psf_outputs', 'convert.geo2grid', tag, dict(result='discharged' if ok else 'sat', backend='syntactic', ms=0), strict=True,
                 note='returns round8(psf) and the convergence of that call unchanged')
    # eta' = 0 on the central meridian, xi' = chi = 0 on the equator (call-site facts used by the zero clauses)
    for what, args_, idx in (('central_meridian', dict(lon=None), (1,)), ('equator', dict(lat=0), (0, 5))):
        if what == 'central_meridian':
            cmz = zone.t * lift(prj.zonewidth) + lift(prj.initialcm) - lift(prj.zonewidth)
            pth = L.run_geo2grid(cv, sm, la, Sym(cmz), zone, ell, prj, vell + vprj + dom)
        else:
            pth = L.run_geo2grid(cv, sm, Sym(z3.RealVal(0)), lo, zone, ell, prj, vell + vprj + dom)
        ok = True
        n = 0
        for p in pth:
            if p['kind'] != 'ret':
                continue
            call = p['val'][1][0]
            hz = [c for c in vell + vprj + dom + p['pc'] if len(E.subterms([c])) < 60]
            for i in idx:
                n += 1
                ok = ok and E.prove_eq(call['args'][i], z3.RealVal(0), hz)['result'] == 'discharged'
        P.oblige('geo2grid.axis_facts.' + what, 'convert.geo2grid', what, dict(result='discharged' if ok and n else 'sat', backend='abstraction rewrite', ms=0), strict=True)

    # ---------------------------------------------------------------- call site: grid2geo
    g2g = L.cut_grid2geo(cv, L.ell_flat)
    east, north = real('east'), real('north')
    domg = [S.is_int(zone.t), zone.t >= 1, zone.t <= 60, east.t >= -2830000, east.t <= 3830000, north.t >= 0, north.t <= 10000000]
    for hemi in ('south', 'north'):
        paths = L.run_grid2geo(cv, g2g, sm, zone, east, north, hemi, ell, prj, vell + vprj + domg)
        rets = [p for p in paths if p['kind'] == 'ret']
        if not rets:
            raise S.EngineError('grid2geo: no returning path')
        for k, p in enumerate(rets):
            (lat_o, lon_o, psf, gc), calls = p['val']
            call = calls[0]
            hy = vell + vprj + domg + [c for c in p['pc'] if len(E.subterms([c])) < 200]
            tag = '%s:exit%d' % (hemi, k)
            wiring(tag, 'grid2geo', call, hy)
            sign = -1 if hemi == 'north' else 1
            r11, r8 = S.round_uf(11), S.round_uf(8)
            ok = z3.is_true(z3.simplify(z3.And(lift(psf) == r8(call['outs'][0].t), lift(gc) == sign * call['outs'][1].t,
                                               lift(lat_o) == sign * r11(call['args'][2]), lift(lon_o) == r11(call['args'][3]))))
            P.oblige('grid2geo.psf_outputs_hemisign', 'convert.grid2geo', tag, dict(result='discharged' if ok else 'sat', backend='syntactic', ms=0), strict=True,
                     note='psf rounded to 8 decimals; convergence and latitude mirrored for the northern hemisphere (computation is done on the southern mirror image)')
            cmz = zone.t * lift(prj.zonewidth) + lift(prj.initialcm) - lift(prj.zonewidth)
            P.oblige('grid2geo.psf_wiring.cm', 'convert.grid2geo', tag, E.prove_eq(call['args'][4], cmz, hy), code=call['args'][4], spec=cmz, hyps=hy)
    P.loops.append(dict(loop='convert.grid2geo#while (Newton)', cut='havoc/if/back', summary='NEWTON_*(t1, a, 1/f)'))
    P.summaries += ['RECT, ALPHA_j, BETA_j (contracts in C01/C02)', 'PSFGC at the two call sites (its contract is proved above)']

    B.report(P, 'bounded.C10')
    P.finish('proof')


def replay(d):
    from bounded import C10 as b
    fi = d.get('failing_input') or {}
    return b.replay_case(d.get('check'), fi.get('input', fi))
