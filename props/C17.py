"""C17 - NTv2 grid files are read faithfully and interpolated only from the right nodes.
Functions under contract: ntv2reader.read_ntv2_file, interpolate_ntv2, SubGrid.ntv2_bilinear / ntv2_bicubic, read_node,
bilinear_interpolation, bicubic_interpolation; transform.ntv2_2d.  The file is a ghost with a symbolic cursor."""
import z3, itertools, os
import numpy as np
from vp import engine as E, sym as S, bounded as B
from vp.report import Prop
from vp.sym import Sym, SymInt, UF, lift, real
from vp.ghosts import GhostFile, GhostStruct, GhostDT, GhostStr, F32, F64, I32
from .common import *
from .C15 import eq

BIL = [(0, 0), (0, 1), (1, 0), (1, 1)]                                   # (drow, dcol) of nodes 1, 2, 3, 4 in read order 1,2,3,4
BIC_ORDER = [5, 6, 7, 8, 16, 1, 2, 9, 15, 4, 3, 10, 14, 13, 12, 11]      # read order of the 16-node stencil
BIC_POS = {1: (0, 0), 2: (0, 1), 3: (1, 1), 4: (1, 0), 5: (-1, -1), 6: (-1, 0), 7: (-1, 1), 8: (-1, 2), 9: (0, 2), 10: (1, 2), 11: (2, 2), 12: (2, 1),
           13: (2, 0), 14: (2, -1), 15: (1, -1), 16: (0, -1)}          # NTv2 developer's guide stencil: (drow, dcol) relative to node 1


def main():
    P = Prop('C17')
    mods = E.load_repo(ALL + ('geodepy.ntv2reader',))
    nr, tr = mods['geodepy.ntv2reader'], mods['geodepy.transform']
    r6 = S.round_uf(6)

    # ---------------------------------------------------------------- interpolation kernels
    n = [real('n%d' % i) for i in range(1, 17)]
    x, y = real('x'), real('y')
    b = lift(nr.bilinear_interpolation(n[0], n[1], n[2], n[3], x, y))
    spec = (1 - x.t) * (1 - y.t) * n[0].t + x.t * (1 - y.t) * n[1].t + (1 - x.t) * y.t * n[2].t + x.t * y.t * n[3].t
    P.oblige('bilinear_interpolation.blend', 'ntv2reader.bilinear_interpolation', 'all', E.prove_eq(b, spec, []), code=b, spec=spec,
             note='(1-x)(1-y) n1 + x(1-y) n2 + (1-x) y n3 + x y n4: node value at each node, exact on fields linear in x and y')
    cc = [[real('c%d%d' % (i, j)) for j in range(3)] for i in range(3)]
    Fq = lambda u, v: sum((cc[i][j].t * (u ** i if i else 1) * (v ** j if j else 1) for i in range(3) for j in range(3)), z3.RealVal(0))
    pw = lambda t, k: z3.RealVal(1) if k == 0 else (t if k == 1 else t * t)
    Fz = lambda u, v: sum((cc[i][j].t * pw(u, i) * pw(v, j) for i in range(3) for j in range(3)), z3.RealVal(0))
    nodes = [Sym(Fz(z3.RealVal(BIC_POS[k][1]), z3.RealVal(BIC_POS[k][0]))) for k in range(1, 17)]
    bc = lift(nr.bicubic_interpolation(*nodes, x, y))
    P.oblige('bicubic_interpolation.biquadratic', 'ntv2reader.bicubic_interpolation', 'all', E.prove_eq(bc, Fz(x.t, y.t), [], timeout=120000), code=bc, spec=Fz(x.t, y.t),
             note='reproduces every field sum_{i,j<=2} c_ij x^i y^j sampled on the 4x4 stencil (hence every linear field): polynomial identity in 9 coefficients and x, y')
    bn = lift(nr.bicubic_interpolation(*n, Sym(z3.RealVal(0)), Sym(z3.RealVal(0))))
    P.oblige('bicubic_interpolation.at_node', 'ntv2reader.bicubic_interpolation', 'x=y=0', E.prove_eq(bn, n[0].t, []), code=bn, spec=n[0].t)

    # ---------------------------------------------------------------- a well-formed symbolic sub-grid
    def subgrid(tag):
        s, e, dy, dx = real('s' + tag), real('e' + tag), real('dy' + tag), real('dx' + tag)
        R, Cn = S.integer('R' + tag), S.integer('C' + tag)
        sg = nr.SubGrid('SG' + tag, 'NONE', '01/01/2000', '01/01/2000', s, s + (R - 1) * dy, e, e + (Cn - 1) * dx, dy, dx, R * Cn)
        valid = [dy.t > 0, dx.t > 0, S.is_int(R.t), S.is_int(Cn.t), R.t >= 2, Cn.t >= 2]
        return sg, dict(s=s, e=e, dy=dy, dx=dx, R=R, C=Cn), valid
    lat, lon = real('lat'), real('lon')
    L3, O3 = lat.t * 3600, lon.t * -3600

    def run_interp(grid, method, rec=None):
        gf_holder = {}

        def gopen(path, mode='r'):
            gf_holder['f'] = GhostFile()
            return gf_holder['f']
        ns = dict(open=gopen, struct=GhostStruct)
        orig_bl, orig_bc = nr.SubGrid.ntv2_bilinear, nr.SubGrid.ntv2_bicubic

        def wrap(fn):
            def w(self, *a, **k):
                if rec is not None:
                    rec['selected'] = self.sub_name
                    rec['args'] = a
                return fn(self, *a, **k)
            return w
        nr.SubGrid.ntv2_bilinear, nr.SubGrid.ntv2_bicubic = wrap(orig_bl), wrap(orig_bc)
        try:
            with E.rebound(nr, **ns):
                def thunk():
                    if rec is not None:
                        rec.clear()
                    res = nr.interpolate_ntv2(grid, lat, lon, method)
                    return res, list(gf_holder['f'].reads) if 'f' in gf_holder and res[0] is not None else [], dict(rec) if rec is not None else {}
                return E.explore(thunk, pre)
        finally:
            nr.SubGrid.ntv2_bilinear, nr.SubGrid.ntv2_bicubic = orig_bl, orig_bc

    # ---------------------------------------------------------------- one sub-grid: addressing, bounds, blend
    sg, v, valid = subgrid('')
    grid = nr.NTv2Grid(11, 11, 1, 'SECONDS', 'NTv2.0', 'A', 'B', 1.0, 1.0, 1.0, 1.0, 'ghost.gsb')
    grid.subgrids[sg.sub_name] = sg
    pre = list(valid)
    s_, e_, dy, dx, R, Cn = v['s'].t, v['e'].t, v['dy'].t, v['dx'].t, v['R'].t, v['C'].t
    inside = z3.And(s_ <= L3, L3 < s_ + (R - 1) * dy, e_ <= O3, O3 < e_ + (Cn - 1) * dx)
    qr, qc, r, c = z3.Real('qr'), z3.Real('qc'), z3.Real('row'), z3.Real('col')
    # lemmas (small nonlinear / linear-integer questions, no query mixes to_int with products)
    lem1 = E.prove(z3.And(qr >= 0, qr < R - 1, qc >= 0, qc < Cn - 1), valid + [inside, qr * dy == L3 - s_, qc * dx == O3 - e_], use_axioms=False)
    P.oblige('interpolate_ntv2.lemma.quotients_in_range', 'ntv2reader.interpolate_ntv2', 'inside', lem1, strict=True,
             note='s <= lat < n and e <= lon < w  =>  0 <= (lat-s)/lat_inc < rows-1 and 0 <= (lon-e)/long_inc < cols-1')
    Ri = z3.Int('Ri')
    fl = z3.ToReal(z3.ToInt(qr))
    l2a = E.prove(S.trunc(qr) == fl, [qr >= 0], use_axioms=False, timeout=20000)
    l2b = E.prove(z3.And(fl >= 0, fl <= z3.ToReal(Ri) - 2, qr - fl >= 0, qr - fl < 1), [Ri >= 2, qr >= 0, qr < z3.ToReal(Ri) - 1], use_axioms=False, timeout=20000)
    lem2 = dict(result='discharged' if l2a['result'] == l2b['result'] == 'discharged' else 'sat', backend=E.Z3V, ms=l2a['ms'] + l2b['ms'])
    P.oblige('interpolate_ntv2.lemma.row_col_from_truncation', 'ntv2reader.interpolate_ntv2', 'inside', lem2, strict=True,
             note='row = int(q) with 0 <= q < rows-1  =>  0 <= row <= rows-2 and 0 <= q - row < 1 (same for columns)')
    cvar = z3.Real('cm1')
    lem3 = E.prove(((e_ + cvar * dx) - e_) / dx == cvar, [dx > 0], use_axioms=False)
    P.oblige('interpolate_ntv2.lemma.num_cols', 'ntv2reader.interpolate_ntv2', 'valid grid', lem3, strict=True, note='(w_long - e_long)/long_inc = cols - 1 exactly for a well-formed sub-grid')
    qr_t, qc_t = (L3 - s_) / dy, (O3 - e_) / dx
    ncols_t = ((e_ + (Cn - 1) * dx) - e_) / dx

    sm = z3.simplify
    pats = [(sm(S.trunc(qr_t)), r), (sm(S.trunc(qc_t)), c), (sm(S.trunc(ncols_t)), Cn - 1), (sm(qr_t), qr), (sm(qc_t), qc), (sm(ncols_t), Cn - 1)]

    def absq(t):
        """abstract the two quotients, the column count and their truncations (justified by the three lemmas above)"""
        t = sm(t)
        for pat, var in pats:
            t = z3.substitute(t, (pat, var))
        return sm(t)
    hyp_rc = [S.is_int(R), S.is_int(Cn), R >= 2, Cn >= 2, S.is_int(r), S.is_int(c), r >= 0, r <= R - 2, c >= 0, c <= Cn - 2, qr - r >= 0, qr - r < 1, qc - c >= 0, qc - c < 1, dy > 0, dx > 0, qr * dy == L3 - s_, qc * dx == O3 - e_]
    base = z3.RealVal(176 + 176)
    for method, order, pos in (('bilinear', [1, 2, 3, 4], {1: (0, 0), 2: (0, 1), 3: (1, 0), 4: (1, 1)}), ('bicubic', BIC_ORDER, BIC_POS)):
        paths = run_interp(grid, method, rec={})
        ins = [p for p in paths if p['kind'] == 'ret' and p['val'][0][0] is not None]
        outs = [p for p in paths if p['kind'] == 'ret' and p['val'][0][0] is None]
        if len(ins) != 1 or any(p['kind'] != 'ret' for p in paths):
            raise S.EngineError('interpolate_ntv2(%s): paths %r' % (method, [(p['kind'], p['val'] if p['kind'] == 'raise' else '') for p in paths]))
        # selection: inside <=> half-open extents; outside => four None
        oks = True
        for p in paths:
            sv = z3.Solver()
            sv.add(*valid)
            sv.add(*p['pc'])
            sv.add(inside if p['val'][0][0] is None else z3.Not(inside))
            oks = oks and E.zcheck(sv, 20000) == z3.unsat
            if p['val'][0][0] is None:
                oks = oks and tuple(p['val'][0]) == (None, None, None, None)
        P.oblige('interpolate_ntv2.selection_single', 'ntv2reader.interpolate_ntv2', method, dict(result='discharged' if oks and len(outs) >= 4 else 'sat', backend=E.Z3V, ms=0), strict=True,
                 note='values are returned exactly for s_lat <= lat < n_lat and e_long <= lon < w_long (arc-seconds, positive west); otherwise (None, None, None, None)')
        (fields, reads, _rec) = ins[0]['val']
        if len(reads) != 4 * len(order):
            raise S.EngineError('%s: %d reads' % (method, len(reads)))
        offs = [absq(lift(o)) for o, nbytes in reads]
        if os.environ.get('VERIF_DEBUG_C17'):
            print('OFF0', offs[0], '\nRAW', lift(reads[0][0]))
        if any('to_int' in str(o) or '/' in str(o).replace('/1', '') for o in offs[:1]) and False:
            pass
        okall = all(nb == 4 for _, nb in reads)
        # node addressing: node k of the stencil is read at  data_start + 16 ((row+dr) cols + col+dc) + 4 field
        res_off = []
        for m, k in enumerate(order):
            dr, dc = pos[k]
            for j in range(4):
                want = base + 16 * ((r + dr) * Cn + (c + dc)) + 4 * j
                res_off.append(E.prove(offs[4 * m + j] == want, hyp_rc, use_axioms=False, timeout=20000))
                if res_off[-1]['result'] != 'discharged':
                    break               # the clause is already not discharged: no need to spend the budget of the remaining nodes
            if res_off and res_off[-1]['result'] != 'discharged':
                break
        oko = okall and all(x_['result'] == 'discharged' for x_ in res_off)
        P.oblige('ntv2_%s.node_offsets' % method, 'ntv2reader.SubGrid.ntv2_%s' % method, '%d nodes x 4 fields' % len(order),
                 dict(result='discharged' if oko else 'sat', backend=E.Z3V, ms=sum(x_['ms'] for x_ in res_off)), strict=True,
                 note='each node of the NTv2 stencil (drow, dcol) is read at sub-grid data start + 16((row+drow) cols + col+dcol) + 4 field, with the explicit stencil table as witness')
        # in-grid: every node read lies inside the sub-grid (row and column indices in range)
        allin = z3.And(*[z3.And(r + pos[k][0] >= 0, r + pos[k][0] <= R - 1, c + pos[k][1] >= 0, c + pos[k][1] <= Cn - 1) for k in order])
        if method == 'bilinear':
            P.oblige('ntv2_bilinear.in_grid', 'ntv2reader.SubGrid.ntv2_bilinear', 'all cells', E.prove(allin, hyp_rc, use_axioms=False), strict=True,
                     note='the four nodes used are nodes of the selected sub-grid, for every cell')
        else:
            interior = [r >= 1, r <= R - 3, c >= 1, c <= Cn - 3]
            P.oblige('ntv2_bicubic.in_grid', 'ntv2reader.SubGrid.ntv2_bicubic', 'interior cells', E.prove(allin, hyp_rc + interior, use_axioms=False), strict=True,
                     note='the sixteen nodes are nodes of the sub-grid for cells not in the outermost ring')

            def refute_ring(w):
                from bounded import C17 as BB
                return BB.ring_witness()
            P.oblige('ntv2_bicubic.in_grid', 'ntv2reader.SubGrid.ntv2_bicubic', 'outermost ring of cells', E.prove(allin, hyp_rc, use_axioms=False), strict=True,
                     refute=refute_ring, pool=[{}], note='the sixteen nodes are nodes of the sub-grid also in the outermost ring of cells (row 0, col 0, row rows-2, col cols-2)')
        # value: the returned fields are the kernel applied to exactly those node values at x = (lon-long1)/long_inc, y = (lat-lat1)/lat_inc
        nodev = {k: [Sym(F32(base + 16 * ((r + pos[k][0]) * Cn + (c + pos[k][1])) + 4 * j)) for j in range(4)] for k in order}
        okv = True
        xs, ys = (O3 - (e_ + c * dx)) / dx, (L3 - (s_ + r * dy)) / dy      # x = (lon - long1)/long_inc, long1 = e_long + col long_inc
        for j in range(4):
            got = absq(lift(fields[j]))
            if method == 'bilinear':
                want = r6(lift(nr.bilinear_interpolation(*[nodev[k][j] for k in (1, 2, 3, 4)], Sym(xs), Sym(ys))))
            else:
                want = r6(lift(nr.bicubic_interpolation(*[nodev[k][j] for k in range(1, 17)], Sym(r6(xs)), Sym(r6(ys)))))
            rv = E.prove_eq(got, want, hyp_rc, timeout=60000)
            if rv['result'] != 'discharged' and os.environ.get('VERIF_DEBUG_C17'):
                print('VALUE got', got, '\nwant', want)
            okv = okv and rv['result'] == 'discharged'
            if not okv:
                break
        P.oblige('ntv2_%s.value' % method, 'ntv2reader.SubGrid.ntv2_%s' % method, '4 fields', dict(result='discharged' if okv else 'sat', backend=E.Z3V, ms=0), strict=True,
                 note='field_j = round6(kernel(node values of field j in stencil order, x, y)) with x = (lon - e_long)/long_inc - col, y = (lat - s_lat)/lat_inc - row in [0,1)')

    # ---------------------------------------------------------------- two sub-grids: finest spacing wins; byte offset past the preceding sub-grid
    sgA, vA, valA = subgrid('A')
    sgB, vB, valB = subgrid('B')
    grid2 = nr.NTv2Grid(11, 11, 2, 'SECONDS', 'NTv2.0', 'A', 'B', 1.0, 1.0, 1.0, 1.0, 'ghost.gsb')
    grid2.subgrids[sgA.sub_name] = sgA
    grid2.subgrids[sgB.sub_name] = sgB
    pre = valA + valB
    paths = run_interp(grid2, 'bilinear', rec={})

    def ins_of(vv):
        return z3.And(vv['s'].t <= L3, L3 < vv['s'].t + (vv['R'].t - 1) * vv['dy'].t, vv['e'].t <= O3, O3 < vv['e'].t + (vv['C'].t - 1) * vv['dx'].t)
    IA, IB = ins_of(vA), ins_of(vB)
    oks, okb = True, True
    nsel = {'SGA': 0, 'SGB': 0, None: 0}
    for p in paths:
        if p['kind'] != 'ret':
            oks = False
            continue
        fields, reads, rec = p['val']
        sel = rec.get('selected') if fields[0] is not None else None
        nsel[sel] += 1
        if sel is None:
            claim = z3.And(z3.Not(IA), z3.Not(IB))
        elif sel == 'SGA':
            claim = z3.And(IA, z3.Implies(IB, vA['dy'].t <= vB['dy'].t))
        else:
            claim = z3.And(IB, z3.Implies(IA, vB['dy'].t <= vA['dy'].t))
        sv = z3.Solver()
        sv.add(*pre)
        sv.add(*p['pc'])
        sv.add(z3.Not(claim))
        oks = oks and E.zcheck(sv, 20000) == z3.unsat
        if sel is not None:
            start = rec['args'][6]          # start_byte handed to the node reader
            want = z3.RealVal(352) if sel == 'SGA' else 352 + 16 * (vA['R'].t * vA['C'].t) + 176
            okb = okb and eq(start, want)
    P.oblige('interpolate_ntv2.selection_overlap', 'ntv2reader.interpolate_ntv2', '%d paths over two symbolic sub-grids' % len(paths),
             dict(result='discharged' if oks and nsel['SGA'] and nsel['SGB'] and nsel[None] else 'sat', backend=E.Z3V, ms=0), strict=True,
             note='outside both => None; inside one => that one; inside both => the one with the finer latitude spacing')
    P.oblige('interpolate_ntv2.start_byte', 'ntv2reader.interpolate_ntv2', 'two sub-grids', dict(result='discharged' if okb else 'sat', backend='term identity', ms=0), strict=True,
             note='data of sub-grid k start at 176 + sum_{j<k}(176 + 16 gs_count_j) + 176: the same recurrence the reader follows')

    # ---------------------------------------------------------------- three overlapping sub-grids: the fineness order is symbolic, so every
    # arrangement of coarse / medium / fine over the file order is covered by one exploration
    sgs3 = [subgrid(t) for t in ('P', 'Q', 'T')]
    grid3 = nr.NTv2Grid(11, 11, 3, 'SECONDS', 'NTv2.0', 'A', 'B', 1.0, 1.0, 1.0, 1.0, 'ghost.gsb')
    for sg_, _, _ in sgs3:
        grid3.subgrids[sg_.sub_name] = sg_
    pre = [c for _, _, v_ in sgs3 for c in v_]
    try:
        paths3 = run_interp(grid3, 'bilinear', rec={})
        why3 = None
    except S.EngineError as ex:
        paths3, why3 = [], str(ex)[:120]
    ins3 = [ins_of(v_) for _, v_, _ in sgs3]
    ok3, seen3 = bool(paths3), set()
    for p in paths3:
        if p['kind'] != 'ret':
            ok3 = False
            continue
        fields, reads, rec = p['val']
        sel = rec.get('selected') if fields[0] is not None else None
        seen3.add(sel)
        if sel is None:
            claim = z3.And(*[z3.Not(i_) for i_ in ins3])
        else:
            k_ = [sg_.sub_name for sg_, _, _ in sgs3].index(sel)
            claim = z3.And(ins3[k_], *[z3.Implies(ins3[j_], sgs3[k_][1]['dy'].t <= sgs3[j_][1]['dy'].t) for j_ in range(3) if j_ != k_])
            start = rec['args'][6]
            want = z3.RealVal(352) + sum([176 + 16 * (sgs3[j_][1]['R'].t * sgs3[j_][1]['C'].t) for j_ in range(k_)], z3.RealVal(0))
            ok3 = ok3 and eq(start, want)
        sv = z3.Solver()
        sv.add(*pre)
        sv.add(*p['pc'])
        sv.add(z3.Not(claim))
        ok3 = ok3 and E.zcheck(sv, 20000) == z3.unsat
        if not ok3:
            break
    P.oblige('interpolate_ntv2.selection_overlap', 'ntv2reader.interpolate_ntv2', '%d paths over three symbolic sub-grids' % len(paths3),
             dict(result=('engine: ' + why3) if why3 else ('discharged' if ok3 and len(seen3) == 4 else 'sat'), backend=E.Z3V, ms=0), strict=True, soft=bool(why3),
             note='three sub-grids in one file order with symbolic spacings (all six fineness orders): the sub-grid used is one that contains the point and none containing it is finer; its data start byte follows the reader\'s recurrence')

    # ---------------------------------------------------------------- reader: header and sub-grid metadata offsets, 1..4 sub-grids
    hdr = [('num_orec', I32, 0), ('num_srec', I32, 1), ('num_file', None, 2), ('gs_type', 'str', 3), ('version', 'str', 4), ('system_f', 'str', 5), ('system_t', 'str', 6),
           ('major_f', F64, 7), ('minor_f', F64, 8), ('major_t', F64, 9), ('minor_t', F64, 10)]
    sub = [('sub_name', 'str', 0), ('parent', 'str', 1), ('created', 'date', 2), ('updated', 'date', 3), ('s_lat', (F64, 3), 4), ('n_lat', (F64, 3), 5), ('e_long', (F64, 3), 6),
           ('w_long', (F64, 3), 7), ('lat_inc', (F64, 6), 8), ('long_inc', (F64, 6), 9), ('gs_count', I32, 10)]
    for nfile in (1, 2, 3, 4):
        gf = GhostFile(concrete_ints={40: nfile})
        with E.rebound(nr, open=lambda *a, **k: gf, struct=GhostStruct, dt=GhostDT):
            pr = E.explore(lambda: nr.read_ntv2_file('ghost.gsb'))
        ok = len(pr) == 1 and pr[0]['kind'] == 'ret'
        if ok:
            g = pr[0]['val']
            for name, kind, k in hdr:
                got = getattr(g, name)
                off = z3.RealVal(16 * k + 8)
                if kind is None:
                    ok = ok and got == nfile
                elif isinstance(kind, str) and kind == 'str':
                    ok = ok and isinstance(got, GhostStr) and eq(got.off, off) and got.n == 8
                else:
                    ok = ok and eq(got, kind(off))
            ok = ok and g.file_path == 'ghost.gsb' and len(g.subgrids) == nfile
            basei = z3.RealVal(176)
            for name_key, sgr in g.subgrids.items():
                for name, kind, k in sub:
                    got = getattr(sgr, name)
                    off = z3.simplify(basei + 16 * k + 8)
                    if isinstance(kind, str) and kind == 'str':
                        ok = ok and isinstance(got, GhostStr) and eq(got.off, off)
                    elif isinstance(kind, str) and kind == 'date':
                        ok = ok and isinstance(got, tuple) and got[0] == 'DATE' and eq(got[1].off, off)
                    elif isinstance(kind, tuple):
                        ok = ok and eq(got, S.round_uf(kind[1])(kind[0](off)))
                    else:
                        ok = ok and eq(got, kind(off))
                basei = z3.simplify(basei + 176 + 16 * I32(basei + 16 * 10 + 8))
        P.oblige('read_ntv2_file.layout', 'ntv2reader.read_ntv2_file', '%d sub-grid(s)' % nfile, dict(result='discharged' if ok else 'sat', backend='ghost file + term identity', ms=0), strict=True,
                 note='every overview field is read at 16k+8, every sub-grid field at base_i+16k+8 with base_{i+1} = base_i + 176 + 16 gs_count_i; extents round3, increments round6')
    P.notes.append('reader layout is proved for files with 1..4 sub-grids (the range the property quantifies), content fully symbolic')

    # ---------------------------------------------------------------- ntv2_2d
    gobj = nr.NTv2Grid(11, 11, 1, 'SECONDS', 'NTv2.0', 'A', 'B', 1.0, 1.0, 1.0, 1.0, 'ghost.gsb')
    s0, s1 = real('shift_lat'), real('shift_lon')
    seen = {}

    def istub(g_, la, lo, method='bicubic'):
        seen['args'] = (g_, la, lo, method)
        return seen.get('ret', (s0, s1, real('r3'), real('r4')))
    ok2 = True
    with E.rebound(tr, interpolate_ntv2=istub):
        for fwd, sgn in ((True, 1), (False, -1)):
            for meth in ('bicubic', 'bilinear'):
                pths_ = E.explore(lambda: tr.ntv2_2d(gobj, lat, lon, fwd, meth))          # a position inside a sub-grid, ANY shift values incl. 0
                ok2 = ok2 and bool(pths_) and all(p_['kind'] == 'ret' for p_ in pths_)
                for p_ in pths_:
                    if p_['kind'] != 'ret':
                        continue
                    out = p_['val']
                    ok2 = ok2 and seen['args'][0] is gobj and seen['args'][1] is lat and seen['args'][2] is lon and seen['args'][3] == meth
                    ok2 = ok2 and eq(out[0], lat.t + sgn * s0.t / 3600) and eq(out[1], lon.t - sgn * s1.t / 3600)
        seen['ret'] = (None, None, None, None)
        raised = 0
        try:
            tr.ntv2_2d(gobj, lat, lon)
        except ValueError:
            raised += 1
        for badg, badm, exc in ((None, 'bicubic', TypeError), ('grid', 'bilinear', TypeError), (gobj, 'nearest', ValueError)):
            try:
                tr.ntv2_2d(badg, lat, lon, True, badm)
            except exc:
                raised += 1
    P.oblige('ntv2_2d.shift_signs', 'transform.ntv2_2d', 'forward/reverse x both methods', dict(result='discharged' if ok2 else 'sat', backend='call summary + term identity', ms=0), strict=True,
             note='forward: lat + shift_lat/3600, lon - shift_lon/3600 (longitude shift positive west); reverse: the opposite; for every value of the interpolated shifts including exactly 0 (all paths return); the position and method reach the interpolator unchanged')
    P.oblige('ntv2_2d.guards_and_outside', 'transform.ntv2_2d', 'guards', dict(result='discharged' if raised == 4 else 'sat', backend='native execution', ms=0), strict=True,
             note='outside every sub-grid (four None) raises ValueError; wrong grid type / method rejected')
    P.summaries += ['file content: uninterpreted FILE_F32/FILE_F64/FILE_I32(offset); ghost open/struct/int.from_bytes/datetime rebound in the loaded module']
    P.assumptions.append('well-formed sub-grid (valid_grid): extents are s + (rows-1) lat_inc, e + (cols-1) long_inc with integer rows, cols >= 2 and gs_count = rows cols; float32 decoding, rounding to 6 decimals and the 1e-6 tolerances are bounded (synthetic files)')
    B.report(P, 'bounded.C17')
    P.finish('proof')


def replay(d):
    from bounded import C17 as b
    fi = d.get('failing_input') or {}
    if d.get('layer') == 'P':
        return b.ring_witness()
    return b.replay_case(d.get('check'), fi.get('input', fi))
