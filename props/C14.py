"""C14 - grid-based geodesic computations agree with ellipsoid and projection.
Functions under contract: geodesy.vincinv_utm, vincdir_utm (lsf loop cut), line_sf, rho, nu."""
import z3
from vp import engine as E, sym as S, bounded as B
from vp.report import Prop
from vp.sym import Sym, UF, PI, lift, real
from .common import *
from . import tmlib as L
from .C15 import eq


def main():
    P = Prop('C14')
    mods = E.load_repo(ALL)
    C, gd, cv, sv = mods['geodepy.constants'], mods['geodepy.geodesy'], mods['geodepy.convert'], mods['geodepy.survey']
    ell = sym_ellipsoid(C)
    vell = valid_ellipsoid(ell)
    EL = L.ell_flat(ell)
    utm = [z3.RealVal(v) for v in (500000, 10000000)] + [S.lift_float(0.9996), z3.RealVal(6), z3.RealVal(-177)]
    z1, e1, n1, z2, e2, n2 = S.integer('zone1'), real('east1'), real('north1'), S.integer('zone2'), real('east2'), real('north2')

    def mk():
        return dict(
            grid2geo=L.Rec(cv.grid2geo, 'GRID2GEO', 4, L.flat_generic(('zone', 'east', 'north', 'hemisphere', 'ellipsoid', 'prj'))),
            geo2grid=L.Rec(cv.geo2grid, 'GEO2GRID', 4, L.flat_generic(('lat', 'lon', 'zone', 'ellipsoid', 'prj')),
                           wrap=lambda b, o: ('South', b['zone'], o[0], o[1], o[2], o[3])),
            vincinv=L.Rec(gd.vincinv, 'VINCINV', 3, L.flat_generic(('lat1', 'lon1', 'lat2', 'lon2', 'ellipsoid'))),
            vincdir=L.Rec(gd.vincdir, 'VINCDIR', 3, L.flat_generic(('lat1', 'lon1', 'azimuth1to2', 'ell_dist', 'ellipsoid'))),
            line_sf=L.Rec(gd.line_sf, 'LINESF', 1, L.flat_generic(('zone1', 'east1', 'north1', 'zone2', 'east2', 'north2', 'hemisphere', 'ellipsoid', 'projection'))))

    def ob(name, fn, tag, ok, note=None, soft=False):
        # soft: the function no longer has the call structure the contract is written over (e.g. a helper inlined, one more branch) and no path
        # raises: the contract cannot be stated over its summaries, which is undecided here -- the bounded layer judges the function natively
        P.oblige(name, 'geodesy.' + fn, tag, dict(result='discharged' if ok else ('engine: call structure differs from the one the contract is written over' if soft else 'sat'),
                                                  backend='call summaries over all actual arguments + term identity', ms=0), strict=True, note=note, soft=soft and not ok)

    # ---------------------------------------------------------------- rho, nu
    lat = real('lat')
    e2_ = lift(ell.ecc1sq)
    sl = UF['sin'](lat.t * PI / 180)
    w2 = 1 - e2_ * sl * sl
    r_c, n_c = lift(gd.rho(lat, ell)), lift(gd.nu(lat, ell))
    r_s = lift(ell.semimaj) * (1 - e2_) / (w2 * UF['sqrt'](w2))
    n_s = lift(ell.semimaj) / UF['sqrt'](w2)
    P.oblige('rho.value', 'geodesy.rho', 'all', E.prove_eq(r_c, r_s, vell), code=r_c, spec=r_s, hyps=vell, note='a(1-e^2)/(1-e^2 sin^2 lat)^(3/2) of the ellipsoid argument')
    P.oblige('nu.value', 'geodesy.nu', 'all', E.prove_eq(n_c, n_s, vell), code=n_c, spec=n_s, hyps=vell, note='a/sqrt(1-e^2 sin^2 lat) of the ellipsoid argument')

    # ---------------------------------------------------------------- vincinv_utm
    for hemi in ('south', 'north'):
        R = mk()
        with E.rebound(gd, **R):
            pth = E.explore(lambda: gd.vincinv_utm(z1, e1, n1, z2, e2, n2, hemi, ell))
        ok = len(pth) == 1 and pth[0]['kind'] == 'ret'
        if not ok:
            ob('vincinv_utm.runs', 'vincinv_utm', hemi, False, 'paths %r' % ([p['kind'] for p in pth],), soft=bool(pth) and all(p['kind'] == 'ret' for p in pth))
            continue
        if len(R['grid2geo'].calls) != 2 or len(R['vincinv'].calls) != 1 or len(R['line_sf'].calls) != 1:
            ob('vincinv_utm.structure', 'vincinv_utm', hemi, False, 'calls: grid2geo %d, vincinv %d, line_sf %d' % (len(R['grid2geo'].calls), len(R['vincinv'].calls), len(R['line_sf'].calls)), soft=True)
            continue
        gdist, b12, b21, lsf = pth[0]['val']
        g1, g2 = R['grid2geo'].calls[0], R['grid2geo'].calls[1]
        key = '|hemisphere=' + hemi
        ob('vincinv_utm.positions', 'vincinv_utm', hemi, g1['key'] == key and g2['key'] == key and all(eq(u, v) for u, v in zip(g1['args'], [z1.t, e1.t, n1.t] + EL + utm))
           and all(eq(u, v) for u, v in zip(g2['args'], [z2.t, e2.t, n2.t] + EL + utm)), 'each grid point converted in its own zone, the given hemisphere and the call\'s ellipsoid')
        vi = R['vincinv'].calls[0]
        ob('vincinv_utm.geodesic', 'vincinv_utm', hemi, all(eq(u, v) for u, v in zip(vi['args'], [g1['outs'][0].t, g1['outs'][1].t, g2['outs'][0].t, g2['outs'][1].t] + EL)))
        ls = R['line_sf'].calls[0]
        ob('vincinv_utm.line_scale_factor_call', 'vincinv_utm', hemi, ls['key'] == key and all(eq(u, v) for u, v in zip(ls['args'], [z1.t, e1.t, n1.t, z2.t, e2.t, n2.t] + EL + utm)))
        ob('vincinv_utm.composition', 'vincinv_utm', hemi, eq(gdist, vi['outs'][0].t * ls['outs'][0].t) and eq(b12, vi['outs'][1].t + g1['outs'][3].t) and eq(b21, vi['outs'][2].t + g2['outs'][3].t)
           and eq(lsf, ls['outs'][0]), 'grid distance = ellipsoidal distance x line scale factor; grid bearings = azimuths + convergence at each end')

    # ---------------------------------------------------------------- line_sf
    for same in (True, False):
        R = mk()
        za, zb = (55, 55) if same else (55, 56)
        with E.rebound(gd, grid2geo=R['grid2geo'], geo2grid=R['geo2grid']):
            pth = E.explore(lambda: gd.line_sf(za, e1, n1, zb, e2, n2, 'north', ell, C.utm), vell)
        ok = len(pth) == 1 and pth[0]['kind'] == 'ret'
        tag = 'same zone' if same else 'adjacent zones'
        if not ok:
            ob('line_sf.runs', 'line_sf', tag, False)
            continue
        k = lift(pth[0]['val'])
        calls = R['grid2geo'].calls
        if same:
            E2, N2 = e2.t, n2.t
            ok = len(calls) == 2 and not R['geo2grid'].calls
            if not ok:
                ob('line_sf.structure', 'line_sf', tag, False, 'calls: grid2geo %d, geo2grid %d' % (len(calls), len(R['geo2grid'].calls)), soft=True)
                continue
            c_a, c_b = calls[0], calls[1]
        else:
            if len(calls) != 3 or len(R['geo2grid'].calls) != 1:
                ob('line_sf.structure', 'line_sf', tag, False, 'calls: grid2geo %d, geo2grid %d' % (len(calls), len(R['geo2grid'].calls)), soft=True)
                continue
            rp = R['geo2grid'].calls[0]
            c0 = calls[0]
            ok = len(calls) == 3 and c0['key'] == '|hemisphere=north' and all(eq(u, v) for u, v in zip(c0['args'], [z3.RealVal(56), e2.t, n2.t] + EL + utm)) and \
                all(eq(u, v) for u, v in zip(rp['args'], [c0['outs'][0].t, c0['outs'][1].t, z3.RealVal(55)] + EL + utm))
            ob('line_sf.reprojection', 'line_sf', tag, ok, 'the second point is re-projected into the first point\'s zone with the call\'s ellipsoid and hemisphere')
            E2, N2 = rp['outs'][0].t, rp['outs'][1].t
            c_a, c_b = calls[1], calls[2]
        okl = c_a['key'] == c_b['key'] == '|hemisphere=north' and all(eq(u, v) for u, v in zip(c_a['args'], [z3.RealVal(55), e1.t, n1.t] + EL + utm)) and \
            all(eq(u, v) for u, v in zip(c_b['args'], [z3.RealVal(55), E2, N2] + EL + utm))
        ob('line_sf.latitudes', 'line_sf', tag, okl, 'mean latitude from both ends converted with the call\'s hemisphere and ellipsoid')
        lm = (c_a['outs'][0].t + c_b['outs'][0].t) / 2
        slm = UF['sin'](lm * PI / 180)
        w = 1 - e2_ * slm * slm
        k0 = S.lift_float(0.9996)
        r2 = (lift(ell.semimaj) * (1 - e2_) / (w * UF['sqrt'](w))) * (lift(ell.semimaj) / UF['sqrt'](w)) * k0 * k0
        x1, x2 = e1.t - 500000, E2 - 500000
        q = x1 * x1 + x1 * x2 + x2 * x2
        spec = k0 * (1 + q / (6 * r2) * (1 + q / (36 * r2)))
        P.oblige('line_sf.formula', 'geodesy.line_sf', tag, E.prove_eq(k, spec, vell), code=k, spec=spec, hyps=vell,
                 note='Deakin (2010) eq. 13: K = k0 [1 + (E1^2+E1E2+E2^2)/(6 r^2) (1 + (E1^2+E1E2+E2^2)/(36 r^2))], r^2 = rho nu k0^2 at the mean latitude, eastings from the false easting')

    # ---------------------------------------------------------------- vincdir_utm (lsf loop cut)
    brg, dist = real('brg'), real('gdist')
    fns = {}

    def hook(lid, names, vals, rnames, rvals):
        out = []
        for nme, v in zip(names, vals):
            if nme in ('lsf', 'lsf_diff', 'east2', 'north2', 'lat2', 'lon2', 'az2to1', 'lsf_previous', 'psf2', 'gridconv2'):
                out.append(Sym(z3.Real('LSFLOOP_' + nme)))
            else:
                out.append(v)          # zone2, hemisphere2: not numeric, kept
        return tuple(out)
    vdu = E.cut_loops(gd.vincdir_utm, gd, hook)
    for hemi in ('south', 'north'):
        R = mk()
        rad = {}

        def rad_stub(ea, no, b, d, rotation=0, psf=1):
            rad['args'] = (ea, no, b, d, rotation, psf)
            return (Sym(z3.Real('RAD_e')), Sym(z3.Real('RAD_n')))
        with E.rebound(gd, radiations=rad_stub, **R):
            pth = E.explore(lambda: vdu(z1, e1, n1, brg, dist, hemi, ell))
            callsnap = {k: list(v.calls) for k, v in R.items()}
        kinds = sorted(p['kind'] for p in pth)
        if kinds != ['loopback', 'ret']:
            ob('vincdir_utm.runs', 'vincdir_utm', hemi, False, 'paths %r' % ([(p['kind'], p['val'] if p['kind'] == 'raise' else '') for p in pth],),
               soft=bool(pth) and all(p['kind'] in ('ret', 'loopback') for p in pth))
            continue
        LP = dict(E.LOOPS['vincdir_utm#while1'])
        key = '|hemisphere=' + hemi
        # the recorded calls of the two paths are interleaved in order of execution: [ret path ...][loopback path ...]
        g_all = callsnap['grid2geo']
        g1 = g_all[0]
        ob('vincdir_utm.start_position', 'vincdir_utm', hemi, g1['key'] == key and all(eq(u, v) for u, v in zip(g1['args'], [z1.t, e1.t, n1.t] + EL + utm)))
        vd = [c for c in callsnap['vincdir']]
        okb = len(vd) >= 1
        for c in vd:          # loop body (only executed on the loopback path)
            okb = okb and all(eq(u, v) for u, v in zip(c['args'], [g1['outs'][0].t, g1['outs'][1].t, brg.t - g1['outs'][3].t, dist.t / z3.Real('LSFLOOP_lsf')] + EL))
        ob('vincdir_utm.azimuth_and_distance', 'vincdir_utm', hemi, okb, 'geodetic azimuth = grid bearing - convergence at point 1; ellipsoidal distance = grid distance / line scale factor; the call\'s ellipsoid')
        gg = callsnap['geo2grid']
        okg = len(gg) >= 1 and all(all(eq(u, v) for u, v in zip(c['args'], [vd[0]['outs'][0].t, vd[0]['outs'][1].t, z1.t] + EL + utm)) for c in gg)
        ob('vincdir_utm.projected_in_zone1', 'vincdir_utm', hemi, okg, 'the computed point is projected in the first point\'s zone with the call\'s ellipsoid')
        ls = callsnap['line_sf']
        # first call: the initial estimate from the plane radiation; last call: the loop body
        cand = [c for c in ls if len(c['args']) > 4 and eq(c['args'][4], gg[0]['outs'][0])]
        if not cand:
            ob('vincdir_utm.structure', 'vincdir_utm', hemi + ':loop body', False, 'no line_sf call on the newly projected point in the loop body (%d line_sf calls in all)' % len(ls), soft=True)
            continue
        body = cand[0] if cand else ls[-1]
        okl = body['key'] == key and all(eq(u, v) for u, v in zip(body['args'], [z1.t, e1.t, n1.t, z1.t, gg[0]['outs'][0].t, gg[0]['outs'][1].t] + EL + utm))
        ob('vincdir_utm.lsf_step', 'vincdir_utm', hemi + ':loop body', okl and eq(LP['post']['lsf'], body['outs'][0]) and eq(LP['post']['lsf_diff'], z3.If(
            z3.Real('LSFLOOP_lsf') - body['outs'][0].t >= 0, z3.Real('LSFLOOP_lsf') - body['outs'][0].t, body['outs'][0].t - z3.Real('LSFLOOP_lsf'))),
           'body: lsf <- line_sf(point 1, newly computed point 2, hemisphere, ellipsoid); lsf_diff = |change|')
        ret = [p for p in pth if p['kind'] == 'ret'][0]
        s = z3.Solver()
        s.add(*ret['pc'])
        s.add(z3.Not(z3.Real('LSFLOOP_lsf_diff') <= z3.Q(1, 10 ** 9)))
        ob('vincdir_utm.exit', 'vincdir_utm', hemi, s.check() == z3.unsat, 'left only when the last change of the line scale factor is <= 1e-9')
        zo, eo, no_, b21, lsf = ret['val']
        gl = [c for c in g_all if len(c['args']) and eq(c['args'][1], z3.Real('LSFLOOP_east2'))]
        okr = eq(zo, z1) and eq(eo, z3.Real('LSFLOOP_east2')) and eq(no_, z3.Real('LSFLOOP_north2')) and eq(lsf, z3.Real('LSFLOOP_lsf')) and len(gl) >= 1 and gl[0]['key'] == key and \
            all(eq(u, v) for u, v in zip(gl[0]['args'], [z1.t, z3.Real('LSFLOOP_east2'), z3.Real('LSFLOOP_north2')] + EL + utm)) and eq(b21, z3.Real('LSFLOOP_az2to1') + gl[0]['outs'][3].t)
        ob('vincdir_utm.result', 'vincdir_utm', hemi, okr, 'returns the loop\'s point in zone 1, back bearing = reverse azimuth + convergence at point 2 (same hemisphere, call\'s ellipsoid), and the line scale factor')
    P.loops.append(dict(loop='geodesy.vincdir_utm#while1 (lsf iteration)', cut='havoc/if/back', summary='fresh symbols for the loop state'))
    P.summaries += ['grid2geo, geo2grid, vincinv, vincdir, line_sf, radiations summarised (contracts C02, C01, C05, C04, this file, C19)']
    P.assumptions.append('not proved (bounded): that the direct computation inverts the inverse to 1 mm, convergence of the lsf iteration, and that the line scale factor lies between the extreme point scale factors / agrees with their Simpson mean')
    B.report(P, 'bounded.C14')
    P.finish('proof')


def replay(d):
    from bounded import C14 as b
    fi = d.get('failing_input') or {}
    return b.replay_case(d.get('check'), fi.get('input', fi))
