"""C12 - angle-object arithmetic and comparison agree with decimal-degree arithmetic.
Methods under contract: the operator methods of DECAngle, HPAngle, GONAngle, DMSAngle, DDMAngle (real classes run on
symbolic contents; dec2hp / hp2dec / the HPAngle constructor through the assumed contracts decided in C08)."""
import z3, operator
from vp import engine as E, sym as S, bounded as B
from vp.report import Prop
from vp.sym import Sym, lift, real
from .common import *

HP2DEC = z3.Function('C12_HP2DEC', S.R, S.R)
DEC2HP = z3.Function('C12_DEC2HP', S.R, S.R)


def main():
    P = Prop('C12')
    mods = E.load_repo(CORE)
    A = mods['geodepy.angles']
    # assumed contracts (C08): hp2dec(dec2hp(x)) = x in R; HPAngle accepts every dec2hp output
    hstub = lambda v: Sym(HP2DEC(lift(v)))
    dstub = lambda v: Sym(DEC2HP(lift(v)))
    inv = lambda ts: [HP2DEC(t) == t.arg(0) for t in ts]
    real_hp_init = A.HPAngle.__init__

    def hp_init(self, hp_angle=0.0):
        self.hp_angle = hp_angle if isinstance(hp_angle, Sym) else float(hp_angle)
    box = lambda v: [v.t >= -360, v.t <= 360]

    def mk(cls, v):
        """an angle object of class cls denoting v degrees, built from symbolic fields where the class has fields"""
        if cls == 'DEC':
            return (lambda: A.DECAngle(v)), v.t, []
        if cls == 'GON':
            return (lambda: A.GONAngle(v * 10 / 9)), v.t, []
        if cls == 'HP':
            h = real('hpfield_' + str(v.t))
            return (lambda: A.HPAngle(h)), HP2DEC(h.t), []
        nm = str(v.t)
        d, m = S.integer('d_' + nm), S.integer('m_' + nm)
        pre = [S.is_int(d.t), d.t >= 0, d.t <= 359]
        if cls == 'DMS':
            s = real('s_' + nm)
            pre += [S.is_int(m.t), m.t >= 0, m.t <= 59, s.t >= 0, s.t < 60]
            return (lambda neg=False: A.DMSAngle(d, m, s, positive=not neg)), d.t + m.t / 60 + s.t / 3600, pre
        mm = real('mm_' + nm)
        pre += [mm.t >= 0, mm.t < 60]
        return (lambda neg=False: A.DDMAngle(d, mm, positive=not neg)), d.t + mm.t / 60, pre

    def den(o):
        if isinstance(o, A.DECAngle):
            return lift(o.dec_angle)
        if isinstance(o, A.GONAngle):
            return lift(o.gon_angle) * z3.Q(9, 10)
        if isinstance(o, A.HPAngle):
            return HP2DEC(lift(o.hp_angle))
        if isinstance(o, A.DMSAngle):
            v = lift(o.degree) + lift(o.minute) / 60 + lift(o.second) / 3600
            return v if o.positive else -v
        if isinstance(o, A.DDMAngle):
            v = lift(o.degree) + lift(o.minute) / 60
            return v if o.positive else -v
        raise S.EngineError('not an angle object: %r' % (o,))
    CL = dict(DEC=A.DECAngle, HP=A.HPAngle, GON=A.GONAngle, DMS=A.DMSAngle, DDM=A.DDMAngle)
    k = real('k')
    with E.rebound(A, hp2dec=hstub, dec2hp=dstub):
        A.HPAngle.__init__ = hp_init
        try:
            for lc in CL:
                for rc in CL:
                    a, b = real('a'), real('b')
                    for opn, op in (('add', operator.add), ('sub', operator.sub)):
                        oa, da, pa = mk(lc, a)
                        ob_, db, pb = mk(rc, b)
                        pre = pa + pb + box(a) + box(b)
                        pth = E.explore(lambda: op(oa(), ob_()), pre)
                        ok = bool(pth) and all(p['kind'] == 'ret' for p in pth)
                        res = []
                        for p in pth:
                            if p['kind'] != 'ret':
                                continue
                            r = p['val']
                            ok = ok and type(r) is CL[lc]
                            want = op(da, db)
                            hy = pre + p['pc']
                            dr = den(r) if type(r) is CL[lc] else z3.RealVal(0)
                            # the result of an HP-class operation is HPAngle(dec2hp(x)): its denotation is hp2dec(dec2hp(x)) = x (contract)
                            hy2 = hy + inv([t for t in E.subterms([dr]) if z3.is_app(t) and t.decl().name() == 'C12_DEC2HP'])
                            res.append(E.prove_eq(dr, want, hy2))
                        ok = ok and all(x['result'] == 'discharged' for x in res)
                        P.oblige('%s.__%s__[%s]' % (lc, opn, rc), 'angles.%sAngle.__%s__' % (lc, opn), '%d paths' % len(pth),
                                 dict(result='discharged' if ok else 'sat', backend=E.Z3V, ms=sum(x['ms'] for x in res)), strict=True,
                                 note='den(result) = den(left) %s den(right) in R; result has the class of the left operand' % ('+' if opn == 'add' else '-'))
                    # comparisons
                    oa, da, pa = mk(lc, a)
                    ob_, db, pb = mk(rc, b)
                    pre = pa + pb + box(a) + box(b)
                    for opn, op, zop in (('eq', operator.eq, lambda x, y: x == y), ('ne', operator.ne, lambda x, y: x != y), ('lt', operator.lt, lambda x, y: x < y), ('gt', operator.gt, lambda x, y: x > y)):
                        pth = E.explore(lambda: bool(op(oa(), ob_())), pre)
                        ok = bool(pth) and all(p['kind'] == 'ret' for p in pth)
                        for p in pth:
                            if p['kind'] != 'ret':
                                continue
                            sv = z3.Solver()
                            sv.add(*pre)
                            sv.add(*p['pc'])
                            sv.add(z3.Not(zop(da, db)) if p['val'] else zop(da, db))
                            ok = ok and E.zcheck(sv, 20000) == z3.unsat
                        P.oblige('%s.__%s__[%s]' % (lc, opn, rc), 'angles.%sAngle.__%s__' % (lc, opn), '%d paths' % len(pth), dict(result='discharged' if ok else 'sat', backend=E.Z3V, ms=0), strict=True,
                                 note='truth value equals the comparison of the decimal-degree values')
                # unary and scalar operators
                a = real('a')
                kpre = [k.t >= z3.Q(1, 10), k.t <= 10]
                for opn, fn, want_of in (('neg', lambda o: -o, lambda dv: -dv), ('abs', lambda o: abs(o), lambda dv: z3.If(dv >= 0, dv, -dv)), ('mul', lambda o: o * k, lambda dv: dv * k.t),
                                         ('rmul', lambda o: k * o, lambda dv: k.t * dv), ('truediv', lambda o: o / k, lambda dv: dv / k.t)):
                    if lc == 'HP' and opn in ('neg', 'abs', 'mul', 'rmul', 'truediv') and not hasattr(A.HPAngle, '__%s__' % opn):
                        continue
                    for sign in (1, -1):
                        oa, da, pa = mk(lc, a)
                        pre = pa + box(a) + kpre
                        if sign == -1:
                            if lc in ('DMS', 'DDM'):
                                da = -da
                            else:
                                continue
                        pth = E.explore(lambda: fn(oa(True) if sign == -1 else oa()), pre)
                        ok = bool(pth) and all(p['kind'] == 'ret' for p in pth)
                        res = []
                        for p in pth:
                            if p['kind'] != 'ret':
                                continue
                            r = p['val']
                            ok = ok and type(r) is CL[lc]
                            dr = den(r) if type(r) is CL[lc] else z3.RealVal(0)
                            hy = pre + p['pc']
                            hy2 = hy + inv([t for t in E.subterms([dr]) if z3.is_app(t) and t.decl().name() == 'C12_DEC2HP'])
                            if lc == 'HP':          # contract of hp2dec: odd, and sign-preserving
                                hf = [t.arg(0) for t in E.subterms([da]) if z3.is_app(t) and t.decl().name() == 'C12_HP2DEC']
                                for h_ in hf:
                                    hy2 += [HP2DEC(-h_) == -HP2DEC(h_), z3.Implies(h_ >= 0, HP2DEC(h_) >= 0), z3.Implies(h_ <= 0, HP2DEC(h_) <= 0),
                                            HP2DEC(z3.If(h_ >= 0, h_, -h_)) == z3.If(h_ >= 0, HP2DEC(h_), HP2DEC(-h_))]
                            res.append(E.prove_eq(dr, want_of(da), hy2))
                        ok = ok and all(x['result'] == 'discharged' for x in res)
                        P.oblige('%s.__%s__' % (lc, opn), 'angles.%sAngle.__%s__' % (lc, opn), ('positive' if sign == 1 else 'negative') + ', %d paths' % len(pth),
                                 dict(result='discharged' if ok else 'sat', backend=E.Z3V, ms=sum(x['ms'] for x in res)), strict=True,
                                 note='den(result) = op(den(operand)); same class; raising paths %r' % ([p['val'] for p in pth if p['kind'] != 'ret'][:1],))
            # modulo (DMS, DDM)
            for lc in ('DMS', 'DDM'):
                for sign in (1, -1):
                    for ksign in (1, -1):
                        a = real('a')
                        oa, da, pa = mk(lc, a)
                        if sign == -1:
                            da = -da
                        pre = pa + box(a) + ([k.t >= 1, k.t <= 360] if ksign == 1 else [k.t <= -1, k.t >= -360])
                        pth = E.explore(lambda: (oa(True) if sign == -1 else oa()) % k, pre)
                        ok = bool(pth) and all(p['kind'] == 'ret' for p in pth)
                        res = []
                        for p in pth:
                            if p['kind'] == 'ret':
                                q = z3.ToReal(z3.ToInt(da / k.t))          # floor: Python's modulo takes the sign of the divisor
                                res.append(E.prove_eq(den(p['val']), da - k.t * q, pre + p['pc']))
                                ok = ok and type(p['val']) is CL[lc]
                        ok = ok and all(x['result'] == 'discharged' for x in res)
                        P.oblige('%s.__mod__' % lc, 'angles.%sAngle.__mod__' % lc, '%s angle, %s modulus, %d paths' % ('negative' if sign == -1 else 'non-negative', 'negative' if ksign == -1 else 'positive', len(pth)),
                                 dict(result='discharged' if ok else 'sat', backend=E.Z3V, ms=0), strict=True,
                                 note='den(result) = den(a) mod k as Python defines it on the decimal values (floor modulo: the result has the sign of k), same class')
            # rounding: changes the object by at most half a unit of the rounded place (round_n as UF with that bound, A3)
            for lc, unit in (('DEC', 1), ('GON', z3.Q(9, 10)), ('DMS', z3.Q(1, 3600)), ('DDM', z3.Q(1, 60))):
                for nn in (0, 3):
                    a = real('a')
                    oa, da, pa = mk(lc, a)
                    pre = pa + box(a)
                    pth = E.explore(lambda: round(oa(), nn), pre)
                    ok = bool(pth) and all(p['kind'] == 'ret' for p in pth)
                    res = []
                    half = z3.Q(5, 10 ** (nn + 1)) * unit
                    for p in pth:
                        if p['kind'] == 'ret':
                            A_ = E.Abstractor()
                            H = A_.assume(pre + p['pc'])
                            dr, dv = A_.ab(den(p['val'])), A_.ab(da)
                            res.append(E.prove(z3.And(dr - dv <= half, dv - dr <= half), H + A_.side, use_axioms=False))
                            ok = ok and type(p['val']) is CL[lc]
                    ok = ok and all(x['result'] == 'discharged' for x in res)
                    P.oblige('%s.__round__[%d]' % (lc, nn), 'angles.%sAngle.__round__' % lc, '%d paths' % len(pth), dict(result='discharged' if ok else 'sat', backend=E.Z3V, ms=0), strict=True,
                             note='|den(round(a, n)) - den(a)| <= half a unit of the rounded place (decimal degrees, gradians, seconds, minutes)')
        finally:
            A.HPAngle.__init__ = real_hp_init
    P.summaries += ['dec2hp / hp2dec summarised with the assumed contract hp2dec(dec2hp(x)) = x; HPAngle.__init__ validation stubbed (its precondition - valid HP - is dec2hp\'s postcondition); both decided in C08']
    P.assumptions.append('expression trees: by structural induction over the per-operator contracts (den is a homomorphism and the class of the left operand is kept); checked as random trees of depth 1..6 in Layer B')
    B.report(P, 'bounded.C12')
    P.finish('proof')


def replay(d):
    from bounded import C12 as b
    fi = d.get('failing_input') or {}
    return b.replay_case(d.get('check'), fi.get('input', fi))
