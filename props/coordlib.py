"""Wiring contracts of the coordinate-object methods that C01-C03 name as observation points: the method hands exactly its own
ellipsoid / projection / coordinates to the functional conversion (a call summary over ALL actual arguments, defaults resolved)
and returns that call's outputs.  (C15 states the full contracts of geodepy/coord.py; these are the clauses that carry C01-C03
through the object API.)"""
import z3
from vp import engine as E, sym as S
from vp.sym import Sym, lift, real
from . import tmlib as L


def eq(a, b):
    if a is None or b is None:
        return a is b
    if z3.is_true(z3.simplify(lift(a) == lift(b))):
        return True
    sv = z3.Solver()
    sv.add(lift(a) != lift(b))
    return E.zcheck(sv, 3000) == z3.unsat


def _native(fn):
    try:
        return fn()
    except Exception as ex:
        return dict(observed='%s: %s' % (type(ex).__name__, ex))


def replay_wiring(obligation):
    """native re-evaluation of a wiring clause for ./check --replay (the same concrete calls the refuters make)"""
    import geodepy.constants as C, geodepy.coord as cd, geodepy.convert as cv
    F = cd.float if 'float' in cd.__dict__ else float
    tests = {
        'CoordGeo.tm': lambda: (cd.CoordGeo(-33.0, 151.0).tm(C.ans, C.isg), cv.geo2grid(-33.0, 151.0, 0, C.ans, C.isg), lambda t, g: abs(t.east - g[2]) < 1e-3 and abs(t.north - g[3]) < 1e-3),
        'CoordCart.tm': lambda: (cd.CoordCart(*cv.llh2xyz(-33.0, 151.0, 50.0, C.ans)).tm(C.ans, C.utm), cv.geo2grid(-33.0, 151.0, 0, C.ans, C.utm), lambda t, g: abs(t.east - g[2]) < 1e-3 and abs(t.north - g[3]) < 1e-3),
        'CoordTM.geo': lambda: (cd.CoordTM(551, 300000.0, 1348000.0, projection=C.isg).geo(C.ans, F), cv.grid2geo(551, 300000.0, 1348000.0, 'south', C.ans, C.isg), lambda g, r: abs(float(g.lat) - r[0]) < 1e-9 and abs(float(g.lon) - r[1]) < 1e-9),
        'CoordGeo.cart': lambda: (cd.CoordGeo(-33.0, 151.0).cart(C.ans), cv.llh2xyz(-33.0, 151.0, 0, C.ans), lambda c, r: max(abs(a - b) for a, b in zip((c.xaxis, c.yaxis, c.zaxis), r)) < 1e-6),
        'CoordGeo.cart#h': lambda: (cd.CoordGeo(-33.0, 151.0, 80.0).cart(C.ans), cv.llh2xyz(-33.0, 151.0, 80.0, C.ans), lambda c, r: max(abs(a - b) for a, b in zip((c.xaxis, c.yaxis, c.zaxis), r)) < 1e-6),
        'CoordCart.geo': lambda: (cd.CoordCart(-4052051.0, 4212836.0, -2545106.0).geo(C.ans, F), cv.xyz2llh(-4052051.0, 4212836.0, -2545106.0, C.ans), lambda g, r: abs(float(g.lat) - r[0]) < 1e-9 and abs(g.ell_ht - r[2]) < 1e-4),
    }
    for k, t in tests.items():
        if obligation.startswith(k.split('#')[0]):
            try:
                a, b, ok = t()
            except Exception as ex:
                return dict(clause=k, observed='%s: %s' % (type(ex).__name__, ex))
            if not ok(a, b):
                return dict(clause=k, observed=str(getattr(a, '__dict__', a))[:300], expected=str(b)[:300])
    return None


def wiring(P, mods, ell, prj, which):
    C, cd, cv = mods['geodepy.constants'], mods['geodepy.coord'], mods['geodepy.convert']
    F = cd.float
    R = dict(
        xyz2llh=L.Rec(cv.xyz2llh, 'XYZ2LLH', 3, L.flat_generic(('x', 'y', 'z', 'ellipsoid'))),
        llh2xyz=L.Rec(cv.llh2xyz, 'LLH2XYZ', 3, L.flat_generic(('lat', 'lon', 'ellht', 'ellipsoid'))),
        grid2geo=L.Rec(cv.grid2geo, 'GRID2GEO', 4, L.flat_generic(('zone', 'east', 'north', 'hemisphere', 'ellipsoid', 'prj'))),
        geo2grid=L.Rec(cv.geo2grid, 'GEO2GRID', 4, L.flat_generic(('lat', 'lon', 'zone', 'ellipsoid', 'prj')),
                       wrap=lambda b, o: ('South', 55, o[0], o[1], o[2], o[3])))

    def run(thunk, label):
        for r in R.values():
            r.calls.clear()
        with E.rebound(cd, **R):
            return E.explore(thunk, label=label)
    x, y, z, n = real('cx'), real('cy'), real('cz'), real('cnval')
    la, lo, eh, oh = real('clat'), real('clon'), real('cell_ht'), real('corth_ht')
    zn, ea, no = S.integer('czone'), real('ceast'), real('cnorth')
    be = 'call summary over all actual arguments'
    if 'CoordGeo.tm' in which:
        pth = run(lambda: cd.CoordGeo(la, lo, eh, oh).tm(ell, prj), 'coord.CoordGeo.tm')
        ok = len(pth) == 1 and pth[0]['kind'] == 'ret'
        if ok:
            t = pth[0]['val']
            c = R['geo2grid'].calls[-1]
            want = [la.t, lo.t, z3.RealVal(0)] + L.ell_flat(ell) + L.prj_flat(prj)
            ok = len(c['args']) == len(want) and all(eq(u, v) for u, v in zip(c['args'], want)) and eq(t.east, c['outs'][0]) and eq(t.north, c['outs'][1]) and t.projection is prj
        P.oblige('CoordGeo.tm.wiring', 'coord.CoordGeo.tm', 'all', dict(result='discharged' if ok else 'sat', backend=be, ms=0, model=None), strict=True, pool=[{}],
                 refute=lambda w: _native(lambda: (lambda t_, g_: None if abs(t_.east - g_[2]) < 1e-3 and abs(t_.north - g_[3]) < 1e-3 else dict(
                     call='CoordGeo(-33.0, 151.0).tm(ans, isg) vs geo2grid(-33.0, 151.0, 0, ans, isg)', observed=(t_.east, t_.north), expected=g_[2:4]))(
                     cd.CoordGeo(-33.0, 151.0).tm(C.ans, C.isg), cv.geo2grid(-33.0, 151.0, 0, C.ans, C.isg))),
                 note='zone/easting/northing are geo2grid(lat, lon, 0, ellipsoid, projection) for the ellipsoid AND projection given to the method')
    if 'CoordCart.tm' in which:
        pth = run(lambda: cd.CoordCart(x, y, z, n).tm(ell, prj), 'coord.CoordCart.tm')
        ok = len(pth) >= 1 and all(p['kind'] == 'ret' for p in pth)
        if ok:
            c1, c2 = R['xyz2llh'].calls[-1], R['geo2grid'].calls[-1]
            ok = all(eq(u, v) for u, v in zip(c1['args'], [x.t, y.t, z.t] + L.ell_flat(ell))) and \
                all(eq(u, v) for u, v in zip(c2['args'], [c1['outs'][0].t, c1['outs'][1].t, z3.RealVal(0)] + L.ell_flat(ell) + L.prj_flat(prj)))
        P.oblige('CoordCart.tm.wiring', 'coord.CoordCart.tm', 'all', dict(result='discharged' if ok else 'sat', backend=be, ms=0, model=None), strict=True, pool=[{}],
                 refute=lambda w: _native(lambda: (lambda t_, g_: None if abs(t_.east - g_[2]) < 1e-3 and abs(t_.north - g_[3]) < 1e-3 else dict(
                     call='CoordCart(llh2xyz(-33,151,50,ans)).tm(ans, utm) vs geo2grid(-33,151,0,ans,utm)', observed=(t_.east, t_.north), expected=g_[2:4]))(
                     cd.CoordCart(*cv.llh2xyz(-33.0, 151.0, 50.0, C.ans)).tm(C.ans, C.utm), cv.geo2grid(-33.0, 151.0, 0, C.ans, C.utm))),
                 note='= geo2grid(xyz2llh(x, y, z, ellipsoid)[0:2], 0, ellipsoid, projection): the same ellipsoid on both hops')
    if 'CoordTM.geo' in which:
        for hn, key in ((True, '|hemisphere=north'), (False, '|hemisphere=south')):
            pth = run(lambda: cd.CoordTM(zn, ea, no, eh, oh, hn, prj).geo(ell, F), 'coord.CoordTM.geo')
            ok = len(pth) == 1 and pth[0]['kind'] == 'ret'
            if ok:
                g = pth[0]['val']
                c = R['grid2geo'].calls[-1]
                want = [zn.t, ea.t, no.t] + L.ell_flat(ell) + L.prj_flat(prj)
                ok = c['key'] == key and len(c['args']) == len(want) and all(eq(u, v) for u, v in zip(c['args'], want)) and eq(g.lat, c['outs'][0]) and eq(g.lon, c['outs'][1])
            P.oblige('CoordTM.geo.wiring', 'coord.CoordTM.geo', key[1:], dict(result='discharged' if ok else 'sat', backend=be, ms=0, model=None), strict=True, pool=[{}],
                     refute=lambda w: _native(lambda: (lambda g_, r_: None if abs(float(g_.lat) - r_[0]) < 1e-9 and abs(float(g_.lon) - r_[1]) < 1e-9 else dict(
                         call='CoordTM(551, 300000.0, 1348000.0, projection=isg).geo(ans, float) vs grid2geo(551, 300000.0, 1348000.0, "south", ans, isg)', observed=(float(g_.lat), float(g_.lon)), expected=r_[0:2]))(
                         cd.CoordTM(551, 300000.0, 1348000.0, projection=C.isg).geo(C.ans, F), cv.grid2geo(551, 300000.0, 1348000.0, 'south', C.ans, C.isg))),
                     note='lat/lon are grid2geo(zone, east, north, hemisphere of the object, ellipsoid, projection of the object)')
    if 'CoordGeo.cart' in which:
        for ehv, ohv, tag in ((eh, oh, 'both heights'), (eh, None, 'ellipsoidal height only'), (None, oh, 'orthometric height only'), (None, None, 'no height')):
            pth = run(lambda: cd.CoordGeo(la, lo, ehv, ohv).cart(ell), 'coord.CoordGeo.cart')
            ok = len(pth) >= 1 and all(p['kind'] == 'ret' for p in pth)
            if ok:
                c = R['llh2xyz'].calls[-1]
                cc = pth[-1]['val']
                hh = eh.t if ehv is not None else z3.RealVal(0)
                ok = len(c['args']) == 5 and all(eq(u, v) for u, v in zip(c['args'], [la.t, lo.t, hh] + L.ell_flat(ell))) and eq(cc.xaxis, c['outs'][0]) and eq(cc.yaxis, c['outs'][1]) and eq(cc.zaxis, c['outs'][2])
            P.oblige('CoordGeo.cart.wiring', 'coord.CoordGeo.cart', tag, dict(result='discharged' if ok else 'sat', backend=be, ms=0, model=None), strict=True, pool=[{}],
                     refute=lambda w, ehv=ehv: _native(lambda: (lambda c_, r_: None if max(abs(a - b) for a, b in zip((c_.xaxis, c_.yaxis, c_.zaxis), r_)) < 1e-6 else dict(
                         call='CoordGeo(-33.0, 151.0%s).cart(ans) vs llh2xyz(-33.0, 151.0, %s, ans)' % ((', 80.0', '80.0') if ehv is not None else ('', '0')), observed=(c_.xaxis, c_.yaxis, c_.zaxis), expected=r_))(
                         (cd.CoordGeo(-33.0, 151.0, 80.0) if ehv is not None else cd.CoordGeo(-33.0, 151.0)).cart(C.ans), cv.llh2xyz(-33.0, 151.0, 80.0 if ehv is not None else 0, C.ans))),
                     note='x, y, z are llh2xyz(lat, lon, ell_ht or 0, ellipsoid) for the ellipsoid given to the method, whichever heights the object carries')
    if 'CoordCart.geo' in which:
        pth = run(lambda: cd.CoordCart(x, y, z, n).geo(ell, F), 'coord.CoordCart.geo')
        ok = len(pth) >= 1 and all(p['kind'] == 'ret' for p in pth)
        if ok:
            c = R['xyz2llh'].calls[-1]
            g = pth[-1]['val']
            ok = all(eq(u, v) for u, v in zip(c['args'], [x.t, y.t, z.t] + L.ell_flat(ell))) and eq(g.lat, c['outs'][0]) and eq(g.lon, c['outs'][1]) and eq(g.ell_ht, c['outs'][2])
        P.oblige('CoordCart.geo.wiring', 'coord.CoordCart.geo', 'all', dict(result='discharged' if ok else 'sat', backend=be, ms=0, model=None), strict=True, pool=[{}],
                 refute=lambda w: _native(lambda: (lambda g_, r_: None if abs(float(g_.lat) - r_[0]) < 1e-9 and abs(g_.ell_ht - r_[2]) < 1e-4 else dict(
                     call='CoordCart(-4052051, 4212836, -2545106).geo(ans, float) vs xyz2llh(..., ans)', observed=(float(g_.lat), float(g_.lon), g_.ell_ht), expected=r_))(
                     cd.CoordCart(-4052051.0, 4212836.0, -2545106.0).geo(C.ans, F), cv.xyz2llh(-4052051.0, 4212836.0, -2545106.0, C.ans))),
                 note='lat, lon, ell_ht are xyz2llh(x, y, z, ellipsoid) for the ellipsoid given to the method')
