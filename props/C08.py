"""C08 - all angle notations convert to one another without changing the angle.
Layer P: every conversion edge that is arithmetic (divmod decodes, sign handling, delegations) on the REAL functions and
classes, with den(value) = the angle in R degrees denoted by a value.  The string-bodied functions (dec2hp, hp2dec,
HPAngle.__init__) enter only through assumed contracts; the property is DECIDED for floats by the exhaustive lattice (B)."""
import z3
from vp import engine as E, sym as S, bounded as B
from vp.report import Prop
from vp.sym import Sym, PI, lift, real
from .common import *

HP2DEC = z3.Function('C08_HP2DEC', S.R, S.R)
DEC2HP = z3.Function('C08_DEC2HP', S.R, S.R)


def den_dms(o):
    v = lift(o.degree) + lift(o.minute) / 60 + lift(o.second) / 3600
    return v if o.positive else -v


def den_ddm(o):
    v = lift(o.degree) + lift(o.minute) / 60
    return v if o.positive else -v


def main():
    P = Prop('C08')
    mods = E.load_repo(CORE)
    A = mods['geodepy.angles']
    d = real('dec')
    box = [d.t >= -720, d.t <= 720]

    def paths_ok(paths):
        return bool(paths) and all(p['kind'] == 'ret' for p in paths)

    def ob(name, fn, paths, den_of, want, extra=None, note=None, pre=(), xf=lambda t: t):
        ok = paths_ok(paths)
        res_all = []
        for p in paths:
            if p['kind'] != 'ret':
                continue
            hy = list(pre) + p['pc']
            res_all.append(E.prove_eq(xf(den_of(p['val'])), want, hy))
            if extra is not None:
                A_ = E.Abstractor()
                H = A_.assume(hy)
                res_all.append(E.prove(A_.ab(xf(extra(p['val']))), H + A_.side, use_axioms=False))
        ok = ok and all(r['result'] == 'discharged' for r in res_all)
        P.oblige(name, fn, '%d paths' % len(paths), dict(result='discharged' if ok else 'sat', backend=E.Z3V, ms=sum(r['ms'] for r in res_all)), strict=True,
                 note=(note or 'den(result) = den(input) exactly in R on every path') + ('; raising paths: %r' % [p['val'] for p in paths if p['kind'] != 'ret'][:2] if not paths_ok(paths) else ''))

    # ---------------------------------------------------------------- plain arithmetic edges
    P.oblige('dec2gon.den', 'angles.dec2gon', 'all', E.prove_eq(lift(A.dec2gon(d)) * z3.Q(9, 10), d.t, []), code=lift(A.dec2gon(d)) * z3.Q(9, 10), spec=d.t)
    P.oblige('gon2dec.den', 'angles.gon2dec', 'all', E.prove_eq(lift(A.gon2dec(d)), d.t * z3.Q(9, 10), []), code=lift(A.gon2dec(d)), spec=d.t * z3.Q(9, 10))
    P.oblige('gon2rad.den', 'angles.gon2rad', 'all', E.prove_eq(lift(A.gon2rad(d)), d.t * z3.Q(9, 10) * PI / 180, []), strict=True)
    fields_dms = lambda o: z3.And(lift(o.minute) >= 0, lift(o.minute) < 60, lift(o.second) >= 0, lift(o.second) < 60, lift(o.degree) >= 0, S.is_int(lift(o.minute)),
                                  o.positive == True if False else z3.BoolVal(True))
    pth = E.explore(lambda: A.dec2dms(d), box)
    ob('dec2dms.den_and_fields', 'angles.dec2dms', pth, den_dms, d.t, extra=lambda o: z3.And(lift(o.minute) >= 0, lift(o.minute) <= 59, lift(o.second) >= 0, lift(o.second) < 60, lift(o.degree) >= 0),
       pre=box, note='den preserved, sign preserved (incl. (-1,0) deg), 0 <= minute <= 59, 0 <= second < 60')
    pth = E.explore(lambda: A.dec2ddm(d), box)
    ob('dec2ddm.den_and_fields', 'angles.dec2ddm', pth, den_ddm, d.t, extra=lambda o: z3.And(lift(o.minute) >= 0, lift(o.minute) < 60, lift(o.degree) >= 0), pre=box)
    pth = E.explore(lambda: A.dd2sec(d), box)
    ob('dd2sec.value', 'angles.dd2sec', pth, lambda v: lift(v), d.t * 3600, pre=box, note='decimal degrees to arc-seconds, sign preserved')
    # ---------------------------------------------------------------- DMS / DDM objects built from symbolic fields
    dg, mi, se = S.integer('deg'), S.integer('min'), real('sec')
    fpre = [S.is_int(dg.t), S.is_int(mi.t), dg.t >= 0, dg.t <= 720, mi.t >= 0, mi.t <= 59, se.t >= 0, se.t < 60]
    for pos in (True, False):
        sg = 1 if pos else -1
        want = sg * (dg.t + mi.t / 60 + se.t / 3600)
        tag = 'positive' if pos else 'negative'
        pth = E.explore(lambda: A.DMSAngle(dg, mi, se, positive=pos).dec(), fpre)
        ob('DMSAngle.dec[%s]' % tag, 'angles.DMSAngle.dec', pth, lambda v: lift(v), want, pre=fpre)
        pth = E.explore(lambda: A.DMSAngle(dg, mi, se, positive=pos).ddm(), fpre)
        ob('DMSAngle.ddm[%s]' % tag, 'angles.DMSAngle.ddm', pth, den_ddm, want, pre=fpre)
        with E.rebound(A, dec2hp=lambda v: Sym(DEC2HP(lift(v)))):
            pth = E.explore(lambda: A.DMSAngle(dg, mi, se, positive=pos).hp(), fpre)
        ob('DMSAngle.hp[%s]' % tag, 'angles.DMSAngle.hp', pth, lambda v: lift(v), DEC2HP(want), pre=fpre, note='= dec2hp(den(self)): den preserved and valid HP by the contract of dec2hp')
        pth = E.explore(lambda: A.DMSAngle(dg, mi, se, positive=pos).gon(), fpre)
        ob('DMSAngle.gon[%s]' % tag, 'angles.DMSAngle.gon', pth, lambda v: lift(v) * z3.Q(9, 10), want, pre=fpre)
        mm = real('minute')
        mpre = [S.is_int(dg.t), dg.t >= 0, dg.t <= 720, mm.t >= 0, mm.t < 60]
        wantd = sg * (dg.t + mm.t / 60)
        pth = E.explore(lambda: A.DDMAngle(dg, mm, positive=pos).dec(), mpre)
        ob('DDMAngle.dec[%s]' % tag, 'angles.DDMAngle.dec', pth, lambda v: lift(v), wantd, pre=mpre)
        pth = E.explore(lambda: A.DDMAngle(dg, mm, positive=pos).dms(), mpre)
        ob('DDMAngle.dms[%s]' % tag, 'angles.DDMAngle.dms', pth, den_dms, wantd, pre=mpre, extra=lambda o: z3.And(lift(o.second) >= 0, lift(o.second) < 60, lift(o.minute) >= 0, lift(o.minute) <= 59))
        with E.rebound(A, dec2hp=lambda v: Sym(DEC2HP(lift(v)))):
            pth = E.explore(lambda: A.DDMAngle(dg, mm, positive=pos).hp(), mpre)
        ob('DDMAngle.hp[%s]' % tag, 'angles.DDMAngle.hp', pth, lambda v: lift(v), DEC2HP(wantd), pre=mpre, note='= dec2hp(den(self))')
    # sign inference of the constructors when degree == 0 and positive is not given
    for cls, mk, den in (('DMSAngle', lambda a, b: A.DMSAngle(0, a, b), den_dms), ('DDMAngle', lambda a, b: A.DDMAngle(0, a), den_ddm)):
        a_, b_ = real('fa'), real('fb')
        pre_s = [a_.t > -60, a_.t < 60, b_.t > -60, b_.t < 60, S.is_int(a_.t)] + ([z3.Or(a_.t == 0, z3.And(a_.t > 0) == (b_.t >= 0), b_.t == 0)] if cls == 'DMSAngle' else [])
        pth = E.explore(lambda: mk(a_, b_), pre_s)
        okc = paths_ok(pth)
        for p in pth:
            if p['kind'] == 'ret':
                o = p['val']
                neg = (a_.t < 0) if cls == 'DDMAngle' else z3.Or(a_.t < 0, z3.And(a_.t == 0, b_.t < 0))
                sv = z3.Solver()
                sv.add(*pre_s)
                sv.add(*p['pc'])
                sv.add(z3.Not(neg) if not o.positive else neg)
                okc = okc and sv.check() == z3.unsat
        P.oblige('%s.sign_inference_zero_degree' % cls, 'angles.%s.__init__' % cls, '%d paths' % len(pth), dict(result='discharged' if okc else 'sat', backend=E.Z3V, ms=0), strict=True,
                 note='with degree 0 and no explicit flag the sign is taken from the minutes (then seconds): angles in (-1, 0) deg keep their sign')
    # ---------------------------------------------------------------- HP decodes by divmod (valid HP given by its fields)
    hpv = dg.t + mi.t / 100 + se.t / 10000
    for pos in (True, False):
        sg = 1 if pos else -1
        h = Sym(sg * hpv)
        want = sg * (dg.t + mi.t / 60 + se.t / 3600)
        pre_h = fpre + ([hpv > 0] if not pos else [])
        tag = 'positive' if pos else 'negative'
        # first-level decode as a lemma (one floor), then substituted: no query nests to_int inside to_int
        q1 = lift(divmod(abs(h) * 1000, 10)[0])
        Di, Mi, sr = z3.Int('Di'), z3.Int('Mi'), z3.Real('sr')
        Hi = z3.ToReal(Di) + z3.ToReal(Mi) / 100 + sr / 10000
        lem = E.prove(z3.ToInt((Hi * 1000) / 10) == 100 * Di + Mi, [Di >= 0, Di <= 720, Mi >= 0, Mi <= 59, sr >= 0, sr < 60], use_axioms=False, timeout=30000)
        # (stated over integer-sorted d, m: every integer-valued real is one of them; |hp| = hp for the non-negative value)
        P.oblige('hp_decode.lemma_degmin[%s]' % tag, 'angles.hp2dms', 'lemma', lem, strict=True, note='floor(|hp| * 100) = 100 d + m for a valid HP value')
        xf = lambda t: z3.substitute(t, (q1, 100 * dg.t + mi.t))
        ident_round = lambda v, n=0: v if isinstance(v, Sym) else round(v, n)
        with E.rebound(A, round=ident_round):
            pth = E.explore(lambda: A.hp2dms(h), pre_h)
        ob('hp2dms.den[%s]' % tag, 'angles.hp2dms', pth, den_dms, want, pre=pre_h, xf=xf,
           extra=lambda o: z3.And(lift(o.degree) == dg.t, lift(o.minute) == mi.t, lift(o.second) == se.t), note='fields decoded exactly (in R) from a valid HP value d + m/100 + s/10000')
        with E.rebound(A, round=ident_round):
            pth = E.explore(lambda: A.hp2ddm(h), pre_h)
        ob('hp2ddm.den[%s]' % tag, 'angles.hp2ddm', pth, lambda o: lift(o.degree), dg.t, pre=pre_h, xf=xf, extra=lambda o, pos=pos: z3.And(lift(o.minute) == mi.t + se.t / 60, z3.BoolVal(o.positive == pos)),
           note='degree and decimal minutes decoded exactly (in R): d, m + s/60, sign kept => den preserved')
    # ---------------------------------------------------------------- delegations through the string-bodied functions (assumed contracts)
    hstub = lambda v: Sym(HP2DEC(lift(v)))
    dstub = lambda v: Sym(DEC2HP(lift(v)))
    hh = real('hp')
    with E.rebound(A, hp2dec=hstub, dec2hp=dstub):
        dl = []
        dl.append(('hp2rad', lift(A.hp2rad(hh)), HP2DEC(hh.t) * PI / 180))
        dl.append(('hp2gon', lift(A.hp2gon(hh)), HP2DEC(hh.t) * 10 / 9))
        dl.append(('gon2hp', lift(A.gon2hp(d)), DEC2HP(d.t * z3.Q(9, 10))))
        dl.append(('hp2deca', lift(A.hp2deca(hh).dec()), HP2DEC(hh.t)))
        dl.append(('hp2gona', lift(A.hp2gona(hh).gon_angle) if hasattr(A.hp2gona(hh), 'gon_angle') else lift(A.hp2gona(hh).gon()), HP2DEC(hh.t) * 10 / 9))
        dl.append(('DECAngle.hp', lift(A.DECAngle(d).hp()), DEC2HP(d.t)))
        dl.append(('DECAngle.gona', lift(A.DECAngle(d).gona().dec()), d.t))
        dl.append(('GONAngle.dec', lift(A.GONAngle(d).dec()), d.t * z3.Q(9, 10)))
        dl.append(('GONAngle.hp', lift(A.GONAngle(d).hp()), DEC2HP(d.t * z3.Q(9, 10))))
        dl.append(('DECAngle.rad', lift(A.DECAngle(d).rad()), d.t * PI / 180))
        dl.append(('gon2deca', lift(A.gon2deca(d).dec()), d.t * z3.Q(9, 10)))
        dl.append(('dec2gona', lift(A.dec2gona(d).dec()), d.t))
    for nm, code, spec in dl:
        P.oblige('delegation.' + nm, 'angles.' + nm, 'all', E.prove_eq(code, spec, []), code=code, spec=spec, note='delegates to the contracted conversion with the right unit factor')
    pth = E.explore(lambda: A.gon2dms(d), box)
    ob('gon2dms.den', 'angles.gon2dms', pth, den_dms, d.t * z3.Q(9, 10), pre=box)
    pth = E.explore(lambda: A.gon2ddm(d), box)
    ob('gon2ddm.den', 'angles.gon2ddm', pth, den_ddm, d.t * z3.Q(9, 10), pre=box)
    P.assumptions.append('hp2dms / hp2ddm: round(|hp|*1000, 10) is taken as the identity - true for every HP value written with up to 13 decimals (the precondition of the property); its float effect is decided by Layer B')
    P.summaries += ['hp2dec / dec2hp: assumed contracts (den preserved; output valid HP; minutes/seconds >= 60 rejected) - string-formatting bodies are outside Layer P and are decided by the exhaustive lattice of Layer B']
    P.assumptions += ['Layer P covers the arithmetic edges in R; every float/decimal-digit effect (the actual failure mode of this property) is decided by Layer B on the lattice the property itself names',
                      'chains and all ordered pairs follow by transitivity of den-equality over the per-edge contracts (lemma); run as chains in Layer B']
    B.report(P, 'bounded.C08')
    P.finish('exploration')


def replay(d):
    from bounded import C08 as b
    fi = d.get('failing_input') or {}
    return b.replay_case(d.get('check'), fi.get('input', fi))
