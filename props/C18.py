"""C18 - editing a SINEX solution keeps exactly the remaining parameters and covariance.
The editing functions are text-file programs with data-dependent loops: the property is DECIDED by the bounded layer
(generated files x every station subset x substituted clock, independent writer and parser).  Layer P covers what is an
arithmetic / format fact: the creation-time stamp for every second of every day (ghost clock, structural string model)."""
import z3, sys, types
from vp import engine as E, sym as S, bounded as B
from vp.report import Prop
from vp.strings import IntSym, SymStr, sstr, vp_format, FormatReroute
from .common import *


def main():
    P = Prop('C18')
    if 'pandas' not in sys.modules:
        try:
            import pandas        # noqa
        except Exception:
            sys.modules['pandas'] = types.ModuleType('pandas')
    import warnings
    warnings.filterwarnings('ignore', category=SyntaxWarning)
    mods = E.load_repo(('geodepy.constants', 'geodepy.angles', 'geodepy.gnss'))
    G = mods['geodepy.gnss']
    yr, doy, sec = z3.Int('year'), z3.Int('doy'), z3.Int('sec')

    class TT:
        tm_year = IntSym(yr, 1000, 9999)
        tm_yday = IntSym(doy, 1, 366)

    class Delta:
        def total_seconds(s):
            return IntSym(sec, 0, 86399)

    class Now:
        def timetuple(s):
            return TT()

        def replace(s, **k):
            return s

        def __sub__(s, o):
            return Delta()

    class GDT:
        @staticmethod
        def now():
            return Now()
    fn = E.transform_func(G.set_creation_time, G, FormatReroute(), extra_ns={'__vp_format': vp_format})
    with E.rebound(G, datetime=GDT, str=sstr):
        res = fn()
    pre = [yr >= 1000, yr <= 9999, doy >= 1, doy <= 366, sec >= 0, sec <= 86399]
    ok_struct = isinstance(res, SymStr)
    shape = [p if isinstance(p, str) else p[0] + str(p[2] if p[0] == 'fix' else '') for p in res.p] if ok_struct else None

    def refute(w):
        import datetime as _dt

        class F(_dt.datetime):
            @classmethod
            def now(cls, tz=None):
                return cls(2021, 3, 7, 0, 16, 39)
        old = G.datetime
        G.datetime = F
        try:
            v = G.set_creation_time()
        finally:
            G.datetime = old
        if len(v) != 12:
            return dict(call='set_creation_time() with the clock at 2021-03-07 00:16:39', observed=v, expected='21:066:00999 (YY:DDD:SSSSS, 12 characters)')
    sv = z3.Solver()
    sv.add(*pre)
    sv.add(res.length() != 12 if ok_struct else z3.BoolVal(True))
    r = E.zcheck(sv, 20000)
    P.oblige('set_creation_time.width', 'gnss.set_creation_time', 'every second of every day', dict(result='discharged' if ok_struct and r == z3.unsat else str(r), backend=E.Z3V, ms=0,
                                                                                                   model=E.LAST_MODEL[0]), strict=True, refute=refute, pool=[{}],
             note='the stamp is YY:DDD:SSSSS - 12 characters for every year 1000..9999, day 1..366 and second 0..86399; structure found: %r' % (shape,))
    okf = ok_struct and len(res.p) == 5 and res.p[1] == ':' and res.p[3] == ':' and not isinstance(res.p[0], str) and not isinstance(res.p[2], str) and not isinstance(res.p[4], str)
    if okf:
        okf = z3.is_true(z3.simplify(res.p[0][1] == yr % 100)) and res.p[0][0] == 'fix' and res.p[0][2] == 2 and res.p[2][1].eq(doy) and res.p[4][1].eq(sec)
    P.oblige('set_creation_time.fields', 'gnss.set_creation_time', 'all', dict(result='discharged' if okf else 'sat', backend='structural string model', ms=0), strict=True,
             note='fields are the two-digit year, the day of the year and the second of the day of the clock, separated by colons')
    P.summaries.append('datetime.now() replaced by a ghost clock with symbolic year / day-of-year / second-of-day; str() and .format() of those integers by the structural string model')
    P.assumptions.append('the editing functions themselves (remove_stns_sinex, remove_velocity_sinex, remove_matrixzeros_sinex, the readers) are outside Layer P (text processing with data-dependent loops): decided by the bounded layer only, never counted as proved')
    B.report(P, 'bounded.C18')
    P.finish('exploration')


def replay(d):
    from bounded import C18 as b
    fi = d.get('failing_input') or {}
    return b.replay_case(d.get('check'), fi.get('input', fi))
