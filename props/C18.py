"""C18 - editing a SINEX solution keeps exactly the remaining parameters and covariance.
The editing functions are text-file programs with data-dependent loops: the property is DECIDED by the bounded layer
(generated files x every station subset x substituted clock, independent writer and parser).  Layer P covers what is an
arithmetic / format fact: the creation-time stamp for every second of every day (ghost clock, structural string model)."""
import z3, sys, types
from vp import engine as E, sym as S, bounded as B
from vp.report import Prop
from vp.strings import IntSym, SymStr, sstr, vp_format, FormatReroute
from .common import *


def refute_mz(w=None):
    """native: a generated file whose covariance has lines with every mix of zero and non-zero elements"""
    from bounded import C18 as b
    import random as _r, os as _os, tempfile as _tf, shutil as _sh
    g = b.load_gnss()
    d = _tf.mkdtemp(prefix='mz_', dir=_os.environ.get('VERIF_SCRATCH') or '/var/tmp')
    cwd = _os.getcwd()
    try:
        _os.chdir(d)
        rng = _r.Random(5)
        for tri in ('L', 'U'):
            sol = b.gen_solution(rng, 3, False, tri)
            n = sol['npar']
            for i in range(n):
                for j in range(i):
                    if (i + 2 * j) % 3 != 0:
                        sol['M'][i][j] = sol['M'][j][i] = 0.0
            b.write_sinex('in.snx', sol)
            g.remove_matrixzeros_sinex('in.snx')
            src = open('in.snx').read().split('\n')
            out = open('output.snx').read().split('\n')
            inm, want = False, []
            for ln in src[1:]:
                if ln.startswith('+SOLUTION/MATRIX_ESTIMATE'):
                    inm = True
                t = ln.split()
                if inm and ln.startswith(' ') and 3 <= len(t) <= 5 and all(float(v) == 0.0 for v in t[2:]):
                    continue
                want.append(ln)
            got = [ln for ln in out[1:] if not ln.startswith('*---') and not ln.startswith('* File created by Geodepy')]
            want = [ln for ln in want if not ln.startswith('*---')]
            if got != want:
                miss = [ln for ln in want if ln not in got][:2] or [ln for ln in got if ln not in want][:2]
                return dict(call='remove_matrixzeros_sinex on a generated %s file with element-wise zeros' % tri, observed='lines lost or altered: %r' % (miss,), expected='only all-zero matrix lines removed',
                            input=dict(generator='bounded.C18.gen_solution(Random(5), 3, False, %r) with M[i][j] = 0 unless (i+2j) %% 3 == 0' % tri))
    finally:
        _os.chdir(cwd)
        _sh.rmtree(d, ignore_errors=True)
    return None


def main():
    P = Prop('C18')
    if 'pandas' not in sys.modules:
        try:
            import pandas        # noqa
        except Exception:
            sys.modules['pandas'] = types.ModuleType('pandas')
    import warnings
    warnings.filterwarnings('ignore', category=SyntaxWarning)
    mods = E.load_repo(('geodepy.constants', 'geodepy.angles', 'geodepy.gnss'))
    G = mods['geodepy.gnss']
    yr, doy, sec = z3.Int('year'), z3.Int('doy'), z3.Int('sec')

    class TT:
        tm_year = IntSym(yr, 1000, 9999)
        tm_yday = IntSym(doy, 1, 366)

    class Delta:
        def total_seconds(s):
            return IntSym(sec, 0, 86399)

    class Now:
        def timetuple(s):
            return TT()

        def replace(s, **k):
            return s

        def __sub__(s, o):
            return Delta()

    class GDT:
        @staticmethod
        def now():
            return Now()
    fn = E.transform_func(G.set_creation_time, G, FormatReroute(), extra_ns={'__vp_format': vp_format})
    unsupported = None
    try:
        with E.rebound(G, datetime=GDT, str=sstr):
            res = fn()
    except (AttributeError, TypeError, S.EngineError, NotImplementedError) as ex:
        res, unsupported = None, 'outside the ghost clock / structural string model: %s: %s' % (type(ex).__name__, str(ex)[:100])
    pre = [yr >= 1000, yr <= 9999, doy >= 1, doy <= 366, sec >= 0, sec <= 86399]
    ok_struct = isinstance(res, SymStr)
    shape = [p if isinstance(p, str) else p[0] + str(p[2] if p[0] == 'fix' else '') for p in res.p] if ok_struct else None

    def refute(w):
        """native sweep with a substituted clock: every second of one day, every day of 2019..2033 at three times, year ends"""
        import datetime as _dt
        clocks = [_dt.datetime(2021, 3, 7, 0, 16, 39)]
        clocks += [_dt.datetime(2022, 5, 17) + _dt.timedelta(seconds=k) for k in range(86400)]
        d0 = _dt.datetime(2019, 1, 1)
        for k in range((_dt.datetime(2034, 1, 1) - d0).days):
            for hms in ((0, 0, 0), (2, 46, 39), (23, 59, 59)):
                clocks.append(d0 + _dt.timedelta(days=k, hours=hms[0], minutes=hms[1], seconds=hms[2]))
        clocks += [_dt.datetime(y, 12, 31, 23, 59, 59) for y in (1999, 2000, 2099, 2100)] + [_dt.datetime(y, 1, 1) for y in (2000, 2001, 2100)]
        cur = [None]

        class F(_dt.datetime):
            @classmethod
            def now(cls, tz=None):
                c = cur[0]
                return cls(c.year, c.month, c.day, c.hour, c.minute, c.second)
        old = G.datetime
        G.datetime = F
        try:
            for c in clocks:
                cur[0] = c
                v = G.set_creation_time()
                want = '%02d:%03d:%05d' % (c.year % 100, (c.date() - _dt.date(c.year, 1, 1)).days + 1, c.hour * 3600 + c.minute * 60 + c.second)
                if v != want:
                    return dict(call='set_creation_time() with the clock at %s' % c.isoformat(), observed=v, expected=want + ' (YY:DDD:SSSSS, 12 characters)', input=dict(clock=c.isoformat()))
        finally:
            G.datetime = old
        return None
    sv = z3.Solver()
    sv.add(*pre)
    sv.add(res.length() != 12 if ok_struct else z3.BoolVal(True))
    r = E.zcheck(sv, 20000)
    P.oblige('set_creation_time.width', 'gnss.set_creation_time', 'every second of every day', dict(result=unsupported or ('discharged' if ok_struct and r == z3.unsat else str(r)), backend=E.Z3V, ms=0,
                                                                                                   model=E.LAST_MODEL[0]), strict=True, refute=refute, pool=[{}], soft=bool(unsupported),
             note='the stamp is YY:DDD:SSSSS - 12 characters for every year 1000..9999, day 1..366 and second 0..86399; structure found: %r' % (shape,))
    okf = ok_struct and len(res.p) == 5 and res.p[1] == ':' and res.p[3] == ':' and not isinstance(res.p[0], str) and not isinstance(res.p[2], str) and not isinstance(res.p[4], str)
    if okf:
        okf = z3.is_true(z3.simplify(res.p[0][1] == yr % 100)) and res.p[0][0] == 'fix' and res.p[0][2] == 2 and res.p[2][1].eq(doy) and res.p[4][1].eq(sec)
    P.oblige('set_creation_time.fields', 'gnss.set_creation_time', 'all', dict(result=unsupported or ('discharged' if okf else 'sat'), backend='structural string model', ms=0), strict=True, refute=refute, pool=[{}], soft=bool(unsupported),
             note='fields are the two-digit year, the day of the year and the second of the day of the clock, separated by colons')
    # ---------------------------------------------------------------- remove_matrixzeros_sinex: the whole function on a ghost file system
    # block readers summarised (assumed: they return the block's lines without the newline - checked by C18.B.readers); every matrix line
    # has a SYMBOLIC number of columns (0..8) and a symbolic "is the zero literal" flag per element; output recorded by a ghost `open`
    ZERO = '0.00000000000000e+00'

    class Tok:
        def __init__(s, flag, name):
            s.flag, s.name = flag, name

        def __eq__(s, o):
            if isinstance(o, str) and o == ZERO:
                return S.SymB(s.flag)
            raise S.EngineError('matrix element compared with %r (outside the token model)' % (o,))

        def __ne__(s, o):
            return ~(s == o)
        __hash__ = None

        def __float__(s):
            raise S.EngineError('float() of a matrix element (outside the token model)')

    class Line(str):
        """a matrix-block line: a str (so that it is written verbatim) whose split() has a symbolic length"""
        def __new__(cls, idx):
            o = super().__new__(cls, '<matrix line %d>' % idx)
            o.n = z3.Int('ncol%d' % idx)
            o.z = [z3.Bool('zero%d_%d' % (idx, k)) for k in range(8)]
            return o

        def split(s, *a):
            if a:
                raise S.EngineError('split with arguments on a matrix line')
            for v in range(0, 8):
                if bool(S.SymB(s.n == v)):
                    return [('%d' % (k + 1)) if k < 2 else Tok(s.z[k], k) for k in range(v)]
            return [('%d' % (k + 1)) if k < 2 else Tok(s.z[k], k) for k in range(8)]
    mlines = [Line(1), Line(2)]
    HEADER = '%=SNX 2.02 AUS 19:183:43185 IGS 19:180:00000 19:186:00000 P 00012 2 S           \n'
    blocks = dict(read_sinex_comments=['+FILE/COMMENT', ' a comment', '-FILE/COMMENT'], read_sinex_site_id_block=['+SITE/ID', ' ALIC  A 50137M001 P', '-SITE/ID'],
                  read_sinex_solution_epochs_block=['+SOLUTION/EPOCHS', ' ALIC  A    1 P', '-SOLUTION/EPOCHS'],
                  read_sinex_solution_estimate_block=['+SOLUTION/ESTIMATE', '     1 STAX   ALIC  A    1', '-SOLUTION/ESTIMATE'])
    written = []

    class Out:
        def __enter__(s):
            return s

        def __exit__(s, *a):
            return False

        def write(s, x):
            written.append(x)

    def gopen(name, mode='r', *a, **k):
        if 'w' not in mode:
            raise S.EngineError('input file opened directly (readers are summarised)')
        return Out()
    stubs = {k: (lambda f, v=v: list(v)) for k, v in blocks.items()}
    stubs.update(read_sinex_header_line=lambda f: HEADER, read_sinex_solution_matrix_estimate_block=lambda f: ['+SOLUTION/MATRIX_ESTIMATE L COVA'] + mlines + ['-SOLUTION/MATRIX_ESTIMATE L COVA'],
                 set_creation_time=lambda: '21:066:00999', open=gopen)

    def thunk():
        del written[:]
        G.remove_matrixzeros_sinex('in.snx')
        return list(written)
    mz_unsupported = None
    try:
        with E.rebound(G, **stubs):
            mpaths = E.explore(thunk, [ln.n >= 0 for ln in mlines] + [ln.n <= 7 for ln in mlines], label='gnss.remove_matrixzeros_sinex')
    except S.EngineError as ex:
        mpaths, mz_unsupported = [], 'outside the token model: %s' % str(ex)[:120]
    SEP = '*-------------------------------------------------------------------------------\n'
    okm = bool(mpaths) and all(p['kind'] == 'ret' for p in mpaths)
    bad_path = None
    nl = lambda xs: [x + '\n' for x in xs]
    for p in mpaths if okm else []:
        w = p['val']
        fixed_head = [HEADER.replace('19:183:43185', '21:066:00999'), SEP] + nl(blocks['read_sinex_comments']) + [SEP] + nl(blocks['read_sinex_site_id_block']) + [SEP] + \
            nl(blocks['read_sinex_solution_epochs_block']) + [SEP] + nl(blocks['read_sinex_solution_estimate_block']) + [SEP, '+SOLUTION/MATRIX_ESTIMATE L COVA\n']
        tail = ['-SOLUTION/MATRIX_ESTIMATE L COVA\n', '%ENDSNX\n']
        if w[:len(fixed_head)] != fixed_head or w[-2:] != tail:
            okm, bad_path = False, 'blocks before / after the matrix lines are not passed through line by line'
            break
        mid = w[len(fixed_head):-2]
        kept = [any(x == str(ln) + '\n' for x in mid) for ln in mlines]
        if mid != [str(ln) + '\n' for ln, k_ in zip(mlines, kept) if k_]:
            okm, bad_path = False, 'matrix lines reordered, duplicated or not on their own line'
            break
        sv = z3.Solver()
        sv.add(*p['pc'])
        rule = []
        for ln, k_ in zip(mlines, kept):
            allzero = z3.Or(*[z3.And(ln.n == v, *[ln.z[k] for k in range(2, v)]) for v in (3, 4, 5)])
            rule.append(z3.Not(allzero) if k_ else allzero)
        sv.add(z3.Not(z3.And(*rule)))
        if E.zcheck(sv, 5000, want_model=True) != z3.unsat:
            okm, bad_path = False, 'a path keeps / drops a line against the rule: %s' % (str(E.LAST_MODEL[0])[:200],)
            break

    P.oblige('remove_matrixzeros_sinex.line_rule', 'gnss.remove_matrixzeros_sinex', '%d paths' % len(mpaths),
             dict(result=mz_unsupported or ('discharged' if okm else 'sat'), backend=E.Z3V + ' over the symbolic column count and zero flags', ms=0), strict=True, refute=refute_mz, pool=[{}], soft=bool(mz_unsupported),
             note='for matrix lines with ANY number of columns and ANY pattern of zero literals: a line is dropped exactly when it has 1..3 elements that all are 0.00000000000000e+00; kept lines, every other block, the separators and %%ENDSNX are written unchanged, in order, one per line; the header gets the new creation stamp; %s' % (bad_path or ''))
    P.summaries.append('remove_matrixzeros_sinex: read_sinex_header_line / _comments / _site_id_block / _solution_epochs_block / _solution_estimate_block / _solution_matrix_estimate_block summarised as "return the lines of the block" (decided by C18.B.readers), set_creation_time by its own contract above, open() by a recording ghost')
    P.summaries.append('datetime.now() replaced by a ghost clock with symbolic year / day-of-year / second-of-day; str() and .format() of those integers by the structural string model')
    P.assumptions.append('the editing functions themselves (remove_stns_sinex, remove_velocity_sinex, remove_matrixzeros_sinex, the readers) are outside Layer P (text processing with data-dependent loops): decided by the bounded layer only, never counted as proved')
    B.report(P, 'bounded.C18')
    P.finish('exploration')


def replay(d):
    from bounded import C18 as b
    fi = d.get('failing_input') or {}
    inp = fi.get('input', fi)
    if d.get('layer') == 'P' and 'remove_matrixzeros' in (d.get('obligation') or ''):
        import sys, types
        if 'pandas' not in sys.modules:
            try:
                import pandas        # noqa
            except Exception:
                sys.modules['pandas'] = types.ModuleType('pandas')
        return refute_mz()
    if d.get('layer') == 'P' and isinstance(inp, dict) and 'clock' in inp:
        import datetime as _dt, sys, types
        if 'pandas' not in sys.modules:
            try:
                import pandas        # noqa
            except Exception:
                sys.modules['pandas'] = types.ModuleType('pandas')
        import geodepy.gnss as G
        c = _dt.datetime.fromisoformat(inp['clock'])

        class F(_dt.datetime):
            @classmethod
            def now(cls, tz=None):
                return cls(c.year, c.month, c.day, c.hour, c.minute, c.second)
        old = G.datetime
        G.datetime = F
        try:
            v = G.set_creation_time()
        finally:
            G.datetime = old
        want = '%02d:%03d:%05d' % (c.year % 100, (c.date() - _dt.date(c.year, 1, 1)).days + 1, c.hour * 3600 + c.minute * 60 + c.second)
        return None if v == want else dict(call='set_creation_time() with the clock at %s' % inp['clock'], observed=v, expected=want)
    return b.replay_case(d.get('check'), inp)
