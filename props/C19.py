"""C19 - survey reductions are geometrically and physically self-consistent.
Functions under contract: convert.polar2rect, rect2polar; survey.joins, radiations, va_conv, first_vel_params,
part_h2o_vap_press, first_vel_corrn, phase_refractivity, group_refractivity, humidity2part_water_vapour_press."""
import z3
import sympy as sp
import mpmath as mp
from vp import engine as E, sym as S, bounded as B, symconv
from vp.report import Prop
from vp.sym import Sym, UF, PI, lift, real
from .common import *


def main():
    P = Prop('C19')
    mods = E.load_repo(ALL)
    cv, sv = mods['geodepy.convert'], mods['geodepy.survey']
    x, y = real('x'), real('y')

    # ---------------------------------------------------------------- rect2polar: polar form with bearing in [0, 360)
    paths = E.explore(lambda: cv.rect2polar(x, y))
    if len(paths) != 2 or any(p['kind'] != 'ret' for p in paths):
        raise S.EngineError('rect2polar: unexpected paths')
    for i, p in enumerate(paths):
        r, th = lift(p['val'][0]), lift(p['val'][1])
        tag = 'theta<0' if p['decisions'][0] else 'theta>=0'
        rad = th * PI / 180
        t = UF['atan2'](x.t, y.t)
        nz = [z3.Or(x.t != 0, y.t != 0)]
        period = [UF['sin'](t + 2 * PI) == UF['sin'](t), UF['cos'](t + 2 * PI) == UF['cos'](t)]        # periodicity instances
        goal = z3.And(r == UF['sqrt'](x.t * x.t + y.t * y.t), th >= 0, th < 360, r * UF['sin'](rad) == x.t, r * UF['cos'](rad) == y.t)

        def refute(w, cv=cv):
            import math
            xx, yy = w.get('x', 0.0), w.get('y', 0.0)
            if xx == 0 and yy == 0:
                return None
            r_, th_ = cv.rect2polar(xx, yy)
            if not (0 <= th_ < 360) or abs(r_ * math.sin(math.radians(th_)) - xx) > 1e-9 * max(1, r_) or abs(r_ * math.cos(math.radians(th_)) - yy) > 1e-9 * max(1, r_):
                return dict(call='rect2polar(x, y)', observed=[r_, th_], expected='bearing in [0,360) with r sin = x, r cos = y')
        P.oblige('rect2polar.polar_form', 'convert.rect2polar', tag, E.prove_abs(goal, nz + p['pc'] + period, extra_terms=[t]), strict=True, refute=refute,
                 pool=[dict(x=-1.0, y=-1.0), dict(x=-3.0, y=4.0), dict(x=2.0, y=-5.0), dict(x=-1e-9, y=1.0)], symbols=('x', 'y'),
                 note='r = sqrt(x^2+y^2); bearing clockwise from north in [0,360); r sin(theta) = x, r cos(theta) = y (atan2 polar-form axiom, 2 pi periodicity instance)')
    # ---------------------------------------------------------------- polar2rect / radiations / joins
    r_, th_ = real('r'), real('theta')
    pr = cv.polar2rect(r_, th_)
    okp = z3.is_true(z3.simplify(z3.And(lift(pr[0]) == r_.t * UF['sin'](th_.t * PI / 180), lift(pr[1]) == r_.t * UF['cos'](th_.t * PI / 180))))
    P.oblige('polar2rect.definition', 'convert.polar2rect', 'all', dict(result='discharged' if okp else 'sat', backend='syntactic', ms=0), strict=True,
             note='x = r sin(theta), y = r cos(theta), theta in degrees clockwise from north')
    e1, n1, e2, n2 = real('e1'), real('n1'), real('e2'), real('n2')
    pj = E.explore(lambda: sv.joins(e1, n1, e2, n2))
    for p in pj:
        dist, brg = p['val']
        tag = 'theta<0' if p['decisions'][0] else 'theta>=0'
        back = sv.radiations(e1, n1, brg, dist)
        t = UF['atan2'](e2.t - e1.t, n2.t - n1.t)
        period = [UF['sin'](t + 2 * PI) == UF['sin'](t), UF['cos'](t + 2 * PI) == UF['cos'](t)]
        nz = [z3.Or(e2.t - e1.t != 0, n2.t - n1.t != 0)]
        goal = z3.And(lift(back[0]) == e2.t, lift(back[1]) == n2.t)
        P.oblige('radiations_of_joins.identity', 'survey.radiations', tag, E.prove_abs(goal, nz + p['pc'] + period, extra_terms=[t]), strict=True,
                 note='the distance and bearing of a join, radiated from the first point, reproduce the second point exactly (in R)')
    brg, dist, rot, psf = real('brg'), real('dist'), real('rot'), real('psf')
    spec_e = e1.t + dist.t * psf.t * UF['sin']((brg.t + rot.t) * PI / 180)
    spec_n = n1.t + dist.t * psf.t * UF['cos']((brg.t + rot.t) * PI / 180)

    def refute_rad(w):
        import math as _m
        for args in ((500.0, 500.0, 0.0, 0.5, 2.309722, 1), (500.0, 500.0, 33.0, 120.0, 2.309722, 1.0), (10.0, -20.0, 271.5, 1000.0, -1.25, 0.9996), (0.0, 0.0, 90.0, 10.0, 0.0, 1.0002), (5.0, 5.0, 45.0, 7.0, 10.0, 1.0)):
            got = sv.radiations(*args)
            want = (args[0] + args[3] * args[5] * _m.sin(_m.radians(args[2] + args[4])), args[1] + args[3] * args[5] * _m.cos(_m.radians(args[2] + args[4])))
            if max(abs(float(g) - v) for g, v in zip(got, want)) > 1e-6:
                return dict(call='radiations%r' % (args,), observed=[float(g) for g in got], expected=list(want), input=dict(args=list(args)))
        return None
    prr = E.explore(lambda: sv.radiations(e1, n1, brg, dist, rot, psf), label='survey.radiations')
    okr = bool(prr) and all(p['kind'] == 'ret' for p in prr)
    if not okr:
        P.oblige('radiations.returns', 'survey.radiations', 'all', dict(result='sat', backend='path enumeration', ms=0), strict=True, refute=refute_rad, pool=[{}])
    for i_, p in enumerate([q for q in prr if q['kind'] == 'ret']):          # one path on the unchanged tree
        tag = 'all' if len(prr) == 1 else 'path %d' % (i_ + 1)
        rr = p['val']
        P.oblige('radiations.rotation_scale.east', 'survey.radiations', tag, E.prove_eq(lift(rr[0]), spec_e, p['pc']), code=lift(rr[0]), spec=spec_e, hyps=p['pc'], refute=refute_rad, pool=[{}])
        P.oblige('radiations.rotation_scale.north', 'survey.radiations', tag, E.prove_eq(lift(rr[1]), spec_n, p['pc']), code=lift(rr[1]), spec=spec_n, hyps=p['pc'], refute=refute_rad, pool=[{}],
                 note='the radiated vector is the polar vector (dist, brg) rotated by `rotation` and scaled by `psf`')
    pr0 = E.explore(lambda: sv.radiations(e1, n1, brg, dist))
    for i_, p in enumerate([q for q in pr0 if q['kind'] == 'ret']):
        r0 = p['val']
        P.oblige('radiations.defaults', 'survey.radiations', 'rotation=0, psf=1' + ('' if len(pr0) == 1 else ', path %d' % (i_ + 1)),
                 E.prove_eq(lift(r0[0]), e1.t + dist.t * UF['sin'](brg.t * PI / 180), p['pc']), code=lift(r0[0]), spec=e1.t + dist.t * UF['sin'](brg.t * PI / 180), hyps=p['pc'])

    # ---------------------------------------------------------------- va_conv
    za, sd, hi, ht = real('za'), real('sd'), real('hi'), real('ht')
    pre = [sd.t >= z3.Q(1, 10), sd.t <= 50000, hi.t >= -5, hi.t <= 5, ht.t >= -5, ht.t <= 5]
    pv = E.explore(lambda: sv.va_conv(za, sd, hi, ht), pre)
    okd = True
    valid = z3.Or(z3.And(za.t > 0, za.t < 180), z3.And(za.t > 180, za.t < 360))
    for p in pv:
        s = z3.Solver()
        s.add(*p['pc'])
        if p['kind'] == 'raise':
            okd = okd and p['val'][0] == 'ValueError'
            s.add(valid)
        else:
            s.add(z3.Not(valid))
        okd = okd and s.check() == z3.unsat
    P.oblige('va_conv.domain', 'survey.va_conv', '%d paths' % len(pv), dict(result='discharged' if okd and len(pv) >= 4 else 'sat', backend=E.Z3V, ms=0), strict=True,
             note='accepts exactly zenith angles in (0,180) and (180,360); anything else raises ValueError')
    for p in pv:
        if p['kind'] != 'ret':
            continue
        tag = 'face ' + ('left' if any('180' in str(c) and '<' in str(c) for c in p['pc'][-1:]) else 'x') + ':' + ''.join('T' if d else 'F' for d in p['decisions'])
        va, sdp, hz, dh = [lift(v) for v in p['val']]
        goal = hz * hz + (dh - hi.t + ht.t) * (dh - hi.t + ht.t) == sd.t * sd.t
        P.oblige('va_conv.pythagoras', 'survey.va_conv', tag, E.prove_abs(goal, pre + p['pc']), strict=True,
                 note='hz^2 + (delta_ht - hi + ht)^2 = slope^2')
        p0 = [q for q in E.explore(lambda: sv.va_conv(za, sd), pre) if q['kind'] == 'ret' and q['decisions'] == p['decisions']]
        ok = len(p0) == 1
        if ok:
            va0, sd0, hz0, dh0 = [lift(v) for v in p0[0]['val']]
            ok = E.prove_eq(hz, hz0, [])['result'] == 'discharged' and E.prove_eq(dh, dh0 + hi.t - ht.t, [])['result'] == 'discharged'
        P.oblige('va_conv.heights_shift_only_dh', 'survey.va_conv', tag, dict(result='discharged' if ok else 'sat', backend=E.Z3V, ms=0), strict=True,
                 note='instrument/target heights leave the horizontal distance unchanged and shift the height difference by hi - ht')
        P.oblige('va_conv.ground_slope', 'survey.va_conv', tag, E.prove_eq(sdp, UF['sqrt'](dh * dh + hz * hz), []), code=sdp, spec=UF['sqrt'](dh * dh + hz * hz))

    # ---------------------------------------------------------------- refractivity: dispersion identity group = phase + sigma d(phase)/d(sigma)
    sg, tc, pp, ee, xc = real('sigma'), real('tc'), real('p'), real('pv'), real('xc')
    lam = 1 / sg
    ph = lift(sv.phase_refractivity(lam, tc, pp, ee, xc))
    gr = lift(sv.group_refractivity(lam, tc, pp, ee, xc))
    # sigma-free subterms (densities, compressibilities: identical code in both functions) become shared fresh constants
    (ph_a, gr_a), frees = E.abstract_free([ph, gr], sg.t)
    ex, syms = symconv.to_sympy(ph_a)
    d = sp.diff(ex, syms['sigma'])
    env = {k: z3.Real(k) for k in syms if not k.startswith('F:')}
    dz = symconv.to_z3(d, env)
    ph, gr = ph_a, gr_a
    boxr = [sg.t >= z3.Q(5, 8), sg.t <= z3.Q(5, 2), tc.t >= -20, tc.t <= 45, pp.t >= 650, pp.t <= 1100, ee.t >= 0, ee.t <= 40, xc.t >= 300, xc.t <= 600]
    res = E.prove(gr == ph + sg.t * dz, boxr, use_axioms=False, timeout=120000)

    def refute_disp(w):
        import math
        lam_, t_, p_, e_, x_ = 1 / w.get('sigma', 1.5), w.get('tc', 15.0), w.get('p', 1000.0), w.get('pv', 10.0), w.get('xc', 420.0)
        h = 1e-6
        f = lambda s_: sv.phase_refractivity(1 / s_, t_, p_, e_, x_)
        s0 = 1 / lam_
        num = f(s0) + s0 * (f(s0 + h) - f(s0 - h)) / (2 * h)
        g_ = sv.group_refractivity(lam_, t_, p_, e_, x_)
        if abs(num - g_) > 1e-4 * max(1.0, abs(g_)) * 1e-2:
            return dict(call='group_refractivity(1/sigma, tc, p, pv, xc) vs phase + sigma d(phase)/d(sigma)', observed=g_, expected=num)
    P.oblige('group_refractivity.dispersion', 'survey.group_refractivity', 'all', res, strict=True, refute=refute_disp,
             pool=[dict(sigma=1.5, tc=15.0, p=1000.0, pv=10.0, xc=420.0), dict(sigma=0.7, tc=-10.0, p=700.0, pv=1.0, xc=300.0), dict(sigma=2.4, tc=40.0, p=1100.0, pv=39.0, xc=600.0)],
             symbols=('sigma', 'tc', 'p', 'pv', 'xc'),
             note='group = phase + sigma * d(phase)/d(sigma): the derivative is taken by sympy from the term extracted from the REAL phase_refractivity; z3 judges the rational-function identity over the property box')
    P.trusted.append('sympy differentiation (term producer for the dispersion derivative)')

    # ---------------------------------------------------------------- first_vel_corrn
    dist_, tmp, prs, hum, co2, wl = real('dist'), real('temp'), real('press'), real('hum'), real('co2'), real('wl')
    C_, D_ = real('parC'), real('parD')
    atm = [dist_.t >= 1, dist_.t <= 50000, tmp.t >= -20, tmp.t <= 45, prs.t >= 650, prs.t <= 1100, hum.t >= 0, hum.t <= 100, co2.t >= 300, co2.t <= 600,
           wl.t >= z3.Q(4, 10), wl.t <= z3.Q(16, 10)]
    GR = E.Summary(sv.group_refractivity, 'GROUPREF', 1, lambda b: [lift(b[k]) for k in ('LAMDA', 'TC', 'P', 'PV', 'XC')])
    HP = E.Summary(sv.humidity2part_water_vapour_press, 'H2PV', 1, lambda b: [lift(b[k]) for k in ('H', 'TC')])

    def refute_def(case):
        def f(w):
            try:
                if case == 'rueger':
                    sv.first_vel_corrn(1000.0, (281.8, 79.66), w.get('temp', 20.0), 1013.25, w.get('hum', 0.0))
                else:
                    sv.first_vel_corrn(1000.0, (281.8, 79.66), w.get('temp', 0.0), 1013.25, w.get('hum', 50.0), CO2_ppm=420.0, wavelength=0.85)
            except ValueError as ex:
                return dict(call='first_vel_corrn(1000, (281.8, 79.66), temp=%r, pressure=1013.25, rel_humidity=%r%s)' % (
                    w.get('temp'), w.get('hum'), '' if case == 'rueger' else ', CO2_ppm=420, wavelength=0.85'), observed='ValueError: %s' % ex, expected='a correction in metres')
        return f
    for case in ('rueger', 'ciddor'):
        with E.rebound(sv, group_refractivity=GR, humidity2part_water_vapour_press=HP):
            if case == 'rueger':
                pth = E.explore(lambda: sv.first_vel_corrn(dist_, (C_, D_), tmp, prs, hum), atm)
            else:
                pth = E.explore(lambda: sv.first_vel_corrn(dist_, (C_, D_), tmp, prs, hum, None, co2, wl), atm)
        raising = [p for p in pth if p['kind'] == 'raise']
        P.oblige('first_vel_corrn.defined', 'survey.first_vel_corrn', case, dict(result='discharged' if not raising and pth else 'sat', backend='symbolic execution (all paths)', ms=0, model=None),
                 strict=True, refute=refute_def(case), pool=[dict(temp=20.0, hum=0.0), dict(temp=0.0, hum=50.0)],
                 note='no exception for any atmosphere in the property box incl. 0 C and 0 %% humidity; raising paths: %r' % ([(p['val'], [str(c)[:40] for c in p['pc']]) for p in raising],))
        for p in pth:
            if p['kind'] != 'ret':
                continue
            tag = case + ':' + ''.join('T' if d else 'F' for d in p['decisions'])
            res_ = lift(p['val'])
            unit = z3.substitute(res_, (dist_.t, z3.RealVal(1)))
            P.oblige('first_vel_corrn.proportional', 'survey.first_vel_corrn', tag, E.prove_eq(res_, dist_.t * unit, atm), code=res_, spec=dist_.t * unit, hyps=atm,
                     note='correction = distance x (factor independent of the distance)')
            if case == 'ciddor':
                g_ = GR.calls[-1]['outs'][0].t if GR.calls else None
                spec = ((1 + C_.t / 1000000) / (1 + g_ / 100000000) - 1) * dist_.t
                P.oblige('first_vel_corrn.co2_form', 'survey.first_vel_corrn', tag, E.prove_eq(res_, spec, atm), code=res_, spec=spec, hyps=atm,
                         note='(n_ref / n_group - 1) x distance with n_ref = 1 + C 1e-6, n_group = 1 + group_refractivity 1e-8')
                ca = GR.calls[-1]['args']
                okw = z3.is_true(z3.simplify(z3.And(ca[0] == wl.t, ca[1] == tmp.t, ca[2] == prs.t, ca[4] == co2.t))) and z3.is_true(z3.simplify(ca[3] == HP.calls[-1]['outs'][0].t)) \
                    and z3.is_true(z3.simplify(z3.And(HP.calls[-1]['args'][0] == hum.t, HP.calls[-1]['args'][1] == tmp.t)))
                P.oblige('first_vel_corrn.co2_wiring', 'survey.first_vel_corrn', tag, dict(result='discharged' if okw else 'sat', backend='call summary', ms=0), strict=True,
                         note='group refractivity is evaluated at the call\'s wavelength, temperature, pressure, CO2 and the vapour pressure of the call\'s humidity')
    P.summaries += ['group_refractivity, humidity2part_water_vapour_press summarised inside first_vel_corrn (dispersion contract proved above)']
    P.assumptions.append('not proved: the 1 ppm agreement of the closed-form (Rueger) and CO2-aware (Ciddor) corrections at 420 ppm (inequality with exp over a 5-D box) - bounded only')
    B.report(P, 'bounded.C19')
    P.finish('proof')


def replay(d):
    from bounded import C19 as b
    fi = d.get('failing_input') or {}
    inp = fi.get('input', fi)
    if d.get('layer') == 'P' and isinstance(inp, dict) and 'args' in inp and 'radiations' in (d.get('obligation') or ''):
        import math as _m
        import geodepy.survey as sv
        a = inp['args']
        got = sv.radiations(*a)
        want = (a[0] + a[3] * a[5] * _m.sin(_m.radians(a[2] + a[4])), a[1] + a[3] * a[5] * _m.cos(_m.radians(a[2] + a[4])))
        return None if max(abs(float(g) - v) for g, v in zip(got, want)) <= 1e-6 else dict(call='radiations%r' % (tuple(a),), observed=[float(g) for g in got], expected=list(want))
    return b.replay_case(d.get('check'), inp)
