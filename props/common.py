"""Shared contract vocabulary: symbolic ellipsoids/projections built by the REAL constructors, validity predicates,
witness pools."""
import z3, random
from vp import engine as E, sym as S
from vp.sym import Sym, UF, PI, lift, real

CORE = ('geodepy.constants', 'geodepy.angles', 'geodepy.convert')
ALL = CORE + ('geodepy.statistics', 'geodepy.survey', 'geodepy.geodesy', 'geodepy.transform')


def sym_ellipsoid(C, a='a', invf='invf'):
    """Ellipsoid(a, 1/f) built by the REAL constructor: derived attributes are the constructor's own expressions"""
    return C.Ellipsoid(real(a), real(invf))


def valid_ellipsoid(ell, earthlike=False):
    a, i = lift(ell.semimaj), lift(ell.inversef)
    return [a >= 6300000, a <= 6400000, i >= (280 if earthlike else 150), i <= (320 if earthlike else 400)]


def sym_projection(C, pfx=''):
    return C.Projection(real(pfx + 'fe'), real(pfx + 'fn'), real(pfx + 'k0'), real(pfx + 'zw'), real(pfx + 'icm'))


def valid_projection(prj):
    return [lift(prj.cmscale) > z3.Q(1, 2), lift(prj.cmscale) < 2, lift(prj.zonewidth) > 0, lift(prj.zonewidth) <= 12,
            lift(prj.initialcm) >= -180, lift(prj.initialcm) <= 180,
            lift(prj.falseeast) >= 0, lift(prj.falseeast) <= 10 ** 7, lift(prj.falsenorth) >= 0, lift(prj.falsenorth) <= 2 * 10 ** 7]


def ell_env(e):
    return dict(a=float(e.semimaj), invf=float(e.inversef))


def ellipsoid_pool(C, rng=None, extra=2):
    out = [C.grs80, C.wgs84, C.ans, C.intl24, C.Ellipsoid(6310000.0, 151.0), C.Ellipsoid(6399000.0, 399.0)]
    rng = rng or random.Random(7)
    for _ in range(extra):
        out.append(C.Ellipsoid(rng.uniform(6.3e6, 6.4e6), rng.uniform(150, 400)))
    return out
