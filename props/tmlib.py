"""Shared machinery for C01 / C02 / C10 / C13 / C14 / C15: summaries of the TM helper functions and symbolic runs of
the real geo2grid / grid2geo."""
import z3, warnings
from vp import engine as E, sym as S
from vp.sym import Sym, UF, PI, lift, real
from spec.M import MSym
from spec import tm as TM
from .common import *

warnings.simplefilter('ignore')


def ell_flat(e):
    return [lift(e.semimaj), lift(e.inversef)]


def prj_flat(p):
    return [lift(p.falseeast), lift(p.falsenorth), lift(p.cmscale), lift(p.zonewidth), lift(p.initialcm)]


def make_summaries(cv):
    """call summaries of the helpers used by geo2grid / grid2geo; each is a UF of ALL actual parameters"""
    rect = E.Summary(cv.rect_radius, 'RECT', 1, lambda b: ell_flat(b['ellipsoid']))
    alpha = E.Summary(cv.alpha_coeff, 'ALPHA', 8, lambda b: ell_flat(b['ellipsoid']))
    beta = E.Summary(cv.beta_coeff, 'BETA', 8, lambda b: ell_flat(b['ellipsoid']))
    psf = E.Summary(cv.psfandgridconv, 'PSFGC', 2,
                    lambda b: [lift(b[k]) for k in ('xi1', 'eta1', 'lat', 'lon', 'cm', 'conf_lat')] + ell_flat(b['ellipsoid']) + prj_flat(b['prj']))
    return dict(rect_radius=rect, alpha_coeff=alpha, beta_coeff=beta, psfandgridconv=psf)


def summary_terms(sm, ell):
    """the summary UFs applied to the call's own ellipsoid: RECT(a,invf), [ALPHA_j(a,invf)], [BETA_j(a,invf)]"""
    args = ell_flat(ell)

    def fns(s, n, name):
        if s.fns is None:
            s.fns = [z3.Function('%s!%d' % (name, i), *([S.R] * (len(args) + 1))) for i in range(n)]
        return [f(*args) for f in s.fns]
    return dict(A=fns(sm['rect_radius'], 1, 'RECT')[0], alpha=fns(sm['alpha_coeff'], 8, 'ALPHA'), beta=fns(sm['beta_coeff'], 8, 'BETA'))


def run_geo2grid(cv, sm, lat, lon, zone, ell, prj, pre):
    with E.rebound(cv, **sm):
        for s in sm.values():
            s.calls.clear()
        paths = E.explore(lambda: (cv.geo2grid(lat, lon, zone, ell, prj), [dict(c) for c in sm['psfandgridconv'].calls[-1:]]), pre)
    return paths


def run_grid2geo(cv, g2g, sm, zone, east, north, hemi, ell, prj, pre):
    with E.rebound(cv, **sm):
        paths = E.explore(lambda: (g2g(zone, east, north, hemi, ell, prj), [dict(c) for c in sm['psfandgridconv'].calls[-1:]]), pre)
    return paths


def spec_forward(lat, lon, cm, ell, prj, st):
    """specification terms (symbolic) of the forward conversion for THE CALL'S OWN ellipsoid and projection"""
    a, invf = ell_flat(ell)
    f = 1 / invf
    e = UF['sqrt'](f * (2 - f))
    east, y, parts = TM.tm_forward_spec(lift(lat) * PI / 180, (lift(lon) - cm) * PI / 180, st['A'], st['alpha'], e,
                                        lift(prj.cmscale), lift(prj.falseeast), MSym)
    return east, y, parts


# ------------------------------------------------------------------------------------------------ grid2geo (Newton loop cut)
NEWTON = {}


def cut_grid2geo(cv, ell_args):
    """loop cut of the real grid2geo: the Newton `while` becomes havoc/if/back with the head state given by
    uninterpreted functions of the loop's read-set (t1, e, e^2)"""
    fns = {}

    def hook(lid, names, vals, rnames, rvals):
        rd = E.LOOPS[lid]['reads']
        ent = E.LOOPS[lid]['entry']
        args = [lift(ent['t'])] + ell_args(rd['ellipsoid'])
        out = []
        for n in names:
            f = fns.setdefault(n, z3.Function('NEWTON_' + n, *([S.R] * (len(args) + 1))))
            out.append(Sym(f(*args)))
        NEWTON['fns'] = fns
        NEWTON['args'] = args
        return tuple(out)
    return E.cut_loops(cv.grid2geo, cv, hook)


# ------------------------------------------------------------------------------------------------ generic recording summaries
class Rec:
    """call summary for composition obligations: records every call with ALL actual arguments (defaults resolved against the
    real signature) and returns uninterpreted-function terms of those arguments (objects flattened by `flat`)"""

    def __init__(self, real_fn, name, nout, flat, wrap=None):
        import inspect
        self.real, self.name, self.nout, self.flat, self.wrap = real_fn, name, nout, flat, wrap
        self.sig = inspect.signature(real_fn)
        self.calls = []
        self.fns = {}
        from vp import state as _ST
        _ST.RECORDERS.add(self)

    def __call__(self, *a, **kw):
        ba = self.sig.bind(*a, **kw)
        ba.apply_defaults()
        b = dict(ba.arguments)
        args, key = self.flat(b)
        fs = self.fns.setdefault((len(args), key), [z3.Function('%s%s!%d' % (self.name, key, i), *([S.R] * (len(args) + 1))) for i in range(self.nout)])
        outs = tuple(Sym(f(*args)) for f in fs)
        self.calls.append(dict(bound=b, args=args, key=key, outs=outs))
        res = self.wrap(b, outs) if self.wrap else outs
        return res if (self.wrap or self.nout > 1) else outs[0]


def flat_generic(order):
    """flatten bound arguments: numbers/symbols -> terms, ellipsoid -> (a, 1/f), projection -> 5 numbers, angle objects ->
    their decimal value, strings/bools/None -> part of the UF's name (a different string is a different function)"""
    def f(b):
        args, key = [], ''
        for k in order:
            v = b[k]
            if hasattr(v, 'semimaj'):
                args += ell_flat(v)
            elif hasattr(v, 'cmscale'):
                args += prj_flat(v)
            elif isinstance(v, (str, bool)) or v is None:
                key += '|%s=%s' % (k, str(v).lower())
            elif hasattr(v, 'dec') and callable(getattr(v, 'dec')) and type(v).__name__.endswith('Angle'):
                args.append(lift(v.dec()))
            elif hasattr(v, 'shape'):
                key += '|%s=array' % k
                args += [lift(x) for x in v.flatten()]
            else:
                args.append(lift(v))
        return args, key
    return f
