"""C04 - direct geodesic solution follows the exact ellipsoidal geodesic.
Function under contract: geodesy.vincdir (sigma loop cut)."""
import z3
import mpmath as mp
from vp import engine as E, sym as S, bounded as B
from vp.report import Prop
from vp.sym import Sym, UF, PI, lift, real
from spec.M import MSym
from spec import vincenty as V
from .common import *


def loop_hook(prefix):
    fns = {}

    def hook(lid, names, vals, rnames, rvals):
        rd = E.LOOPS[lid]['reads']
        args = []
        for k in sorted(rd):
            v = rd[k]
            if isinstance(v, (Sym, int, float)) and not isinstance(v, bool):
                args.append(lift(v))
            elif hasattr(v, 'semimaj'):
                args += [lift(v.semimaj), lift(v.inversef)]
        out = []
        for n in names:
            f = fns.setdefault(n, z3.Function('%s_%s' % (prefix, n), *([S.R] * (len(args) + 1))))
            out.append(Sym(f(*args)))
        return tuple(out)
    return hook


def main():
    P = Prop('C04')
    mods = E.load_repo(ALL)
    C, gd, ang = mods['geodepy.constants'], mods['geodepy.geodesy'], mods['geodepy.angles']
    ell = sym_ellipsoid(C)
    vell = valid_ellipsoid(ell, earthlike=True)
    lat1, lon1, az, s = real('lat1'), real('lon1'), real('az'), real('s')
    pre = vell + [lat1.t >= -90, lat1.t <= 90, lon1.t >= -180, lon1.t <= 180, az.t >= 0, az.t <= 360, s.t >= 0, s.t <= 20000000]
    vd = E.cut_loops(gd.vincdir, gd, loop_hook('VDIR'), cut_for=True)
    paths = E.explore(lambda: vd(lat1, lon1, az, s, ell), pre)
    lbs = [p for p in paths if p['kind'] == 'loopback']
    rets = [p for p in paths if p['kind'] == 'ret']
    if not lbs or len(rets) < 2 or len(lbs) + len(rets) != len(paths):
        raise S.EngineError('vincdir: path kinds %r' % sorted(p['kind'] for p in paths))
    a_, f_ = lift(ell.semimaj), 1 / lift(ell.inversef)
    b_ = a_ * (1 - f_)
    su = V.direct_setup(lat1.t * PI / 180, az.t * PI / 180, s.t, a_, b_, f_, MSym)
    # one loop-body path per way of reaching the loop (exactly one on the unchanged tree); every path carries its own loop record
    for i, pl in enumerate(lbs):
        LP = pl['loops']['vincdir#for1']
        sfx = '' if len(lbs) == 1 else ' #%d' % (i + 1)
        hy = pre + E.small(pl['pc'])
        rd = LP['reads']
        # setup quantities, observed in the loop's read-set
        for nm, code, spec in (('sigma1', lift(rd['sigma1']), su['sigma1']), ('A', lift(rd['a']), su['A']), ('B', lift(rd['b']), su['B']),
                               ('sigma0', lift(LP['entry']['sigma']), su['sigma0'])):
            P.oblige('vincdir.' + nm, 'geodesy.vincdir', 'setup' + sfx, E.prove_eq(code, spec, hy), code=code, spec=spec, hyps=hy,
                     note='Vincenty 1975 with the a, b, f of the ellipsoid argument')
        sh = lift(LP['head']['sigma'])
        st, tsm = V.direct_step(su, sh, s.t, b_, MSym)
        P.oblige('vincdir.sigma_step', 'geodesy.vincdir', 'loop body' + sfx, E.prove_eq(lift(LP['post']['sigma']), st, hy), code=lift(LP['post']['sigma']), spec=st, hyps=hy,
                 note='body is sigma <- s/(bA) + delta_sigma(sigma) with Vincenty\'s delta_sigma')
        P.oblige('vincdir.two_sigma_m', 'geodesy.vincdir', 'loop body' + sfx, E.prove_eq(lift(LP['post']['two_sigma_m']), tsm, hy), code=lift(LP['post']['two_sigma_m']), spec=tsm, hyps=hy)
    caps = [pl['loops']['vincdir#for1'].get('range') for pl in lbs]
    capv = [(c_[0] if len(c_) == 1 else (c_[1] - c_[0] if len(c_) >= 2 else None)) if c_ else None for c_ in caps]
    okcap = all(isinstance(v_, int) and v_ >= 20 for v_ in capv)
    P.oblige('vincdir.iteration_cap', 'geodesy.vincdir', 'range(%s)' % (capv[0] if capv else '?'), dict(result='discharged' if okcap else 'sat', backend='loop record', ms=0), strict=True,
             note='the sigma iteration may run at least 20 times (it contracts by about e^2 per pass: fewer than 10 passes reach 1e-12 for Earth-like flattening - assumed lemma, twofold margin); found caps %r' % (capv,))
    r11, r9 = S.round_uf(11), S.round_uf(9)
    nret = {}
    for p in rets:
        LP = p['loops']['vincdir#for1']
        sh = lift(LP['head']['sigma'])
        st, tsm = V.direct_step(su, sh, s.t, b_, MSym)
        exhausted = any(z3.is_const(c) and str(c).startswith('exhausted!') for c in p['pc'])
        tag = 'exit:cap reached' if exhausted else 'exit:converged'
        nret[tag] = nret.get(tag, 0) + 1
        if len(rets) > 2:
            tag += ' #%d' % nret[tag]
        if exhausted:
            sig, two = sh, lift(LP['head']['two_sigma_m'])
        else:
            sig, two = st, tsm
            # exit criterion
            tol = z3.Q(1, 10 ** 12)
            A_ = E.Abstractor()
            H = A_.assume(pre + p['pc'])
            d = A_.ab(st - sh)
            P.oblige('vincdir.sigma_exit', 'geodesy.vincdir', tag, E.prove(z3.And(d < tol, d > -tol), H + A_.side, use_axioms=False), strict=True,
                     goal=z3.And(st - sh < tol, st - sh > -tol), hyps=pre + list(p['pc']),
                     note='the loop is left by break only when |sigma_new - sigma| < 1e-12 (or after 1000 iterations)')
        phi2, L_, al2 = V.direct_finish(su, sig, two, az.t * PI / 180, f_, MSym)
        la2, lo2, az21 = [lift(v) for v in p['val']]
        hy = pre + E.small(p['pc'])
        P.oblige('vincdir.lat2', 'geodesy.vincdir', tag, E.prove_eq(la2, r11(phi2 * 180 / PI), hy), code=la2, spec=r11(phi2 * 180 / PI), hyps=hy)
        P.oblige('vincdir.lon2', 'geodesy.vincdir', tag, E.prove_eq(lo2, r11(lon1.t + L_ * 180 / PI), hy), code=lo2, spec=r11(lon1.t + L_ * 180 / PI), hyps=hy,
                 note='lon2 = lon1 + degrees(L), L from lambda with Vincenty\'s C series')
        P.oblige('vincdir.reverse_azimuth', 'geodesy.vincdir', tag, E.prove_eq(az21, r9(al2 * 180 / PI + 180), hy), code=az21, spec=r9(al2 * 180 / PI + 180), hyps=hy)
    P.loops.append(dict(loop='geodesy.vincdir#for1 (sigma iteration, range(1000) with break)', cut='havoc/try-break/back + exhausted fork', summary='VDIR_sigma, VDIR_two_sigma_m over the read-set'))
    # angle objects
    for cls in ('DECAngle', 'GONAngle'):
        mk = getattr(ang, cls)
        g = (lambda x: mk(x)) if cls == 'DECAngle' else (lambda x: mk(x * 10 / 9))
        pa = E.explore(lambda: vd(g(lat1), g(lon1), g(az), s, ell), pre)
        pb = E.explore(lambda: vd(g(lat1).dec(), g(lon1).dec(), g(az).dec(), s, ell), pre)
        ra, rb = [p for p in pa if p['kind'] == 'ret'], [p for p in pb if p['kind'] == 'ret']
        same = len(ra) == len(rb) >= 2 and all(z3.is_true(z3.simplify(z3.And(*[lift(u) == lift(v) for u, v in zip(x['val'], y['val'])]))) for x, y in zip(ra, rb))
        P.oblige('vincdir.angle_objects', 'geodesy.vincdir', cls, dict(result='discharged' if same else 'sat', backend='syntactic term identity', ms=0), strict=True)
    P.assumptions += ['assumed lemma (Vincenty 1975): the truncated A, B, C series differ from the exact geodesic by < 0.1 mm for Earth-like flattening; convergence of the sigma iteration; both checked by Layer B against geodesic integrals evaluated by quadrature']
    B.report(P, 'bounded.C04')
    P.finish('proof')


def replay(d):
    from bounded import C04 as b
    fi = d.get('failing_input') or {}
    return b.replay_case(d.get('check'), fi.get('input', fi))
