"""C07 - 14-parameter transformation advances parameters linearly in time.
Functions under contract: constants.Transformation.__add__, transform.conform14, transform_atrf2014_to_gda2020,
transform_gda2020_to_atrf2014 (conform7's own contract is C06)."""
import z3
import mpmath as mp
from vp import engine as E, sym as S, bounded as B
from vp.report import Prop
from vp.sym import Sym, UF, PI, lift, real
from vp.ghosts import GhostDate, WriteBarrier
from spec import helmert as H
from .common import *
from .C06 import sym_transformation, PARAMS, RATES, SDS, hp2dec_stub, HP2DEC, catalogue

SDR = tuple('sd_d_' + p for p in PARAMS)


def main():
    P = Prop('C07')
    mods = E.load_repo(ALL)
    C, tr = mods['geodepy.constants'], mods['geodepy.transform']
    ref, to = S.integer('ref_ord'), S.integer('to_ord')
    days = to.t - ref.t
    r8 = S.round_uf(8)

    def mk(with_sd=True):
        sd = C.TransformationSD(**{k: real(k) for k in SDS + SDR}) if with_sd else None
        return C.Transformation('FROM', 'TO', GhostDate(ref), *[real(k) for k in PARAMS], *[real(k) for k in RATES], tf_sd=sd)

    # ---------------------------------------------------------------- Transformation.__add__
    for with_sd in (True, False):
        T = mk(with_sd)
        wb = WriteBarrier([C.Transformation, C.TransformationSD])
        wb.freeze(T, *([T.tf_sd] if with_sd else []))
        sd_before = {k: getattr(T.tf_sd, k) for k in SDS + SDR} if with_sd else {}
        with E.rebound(C, date=GhostDate), wb:
            paths = E.explore(lambda: T + GhostDate(to), [S.is_int(ref.t), S.is_int(to.t)])
        tag = 'tf_sd present' if with_sd else 'tf_sd absent'
        if len(paths) != 1 or paths[0]['kind'] != 'ret' or paths[0]['val'] is None:
            raise S.EngineError('__add__: unexpected paths %r' % [(p['kind'], p['val']) for p in paths])
        N = paths[0]['val']
        for k, dk in zip(PARAMS, RATES):
            spec = r8(lift(getattr(T, k)) + lift(getattr(T, dk)) * (days / z3.Q(1461, 4)))
            P.oblige('Transformation.__add__.params.' + k, 'constants.Transformation.__add__', tag, E.prove_eq(lift(getattr(N, k)), spec, []),
                     code=lift(getattr(N, k)), spec=spec, note='round8(p + rate * days / 365.25), days = target ordinal - reference ordinal (any two dates)')
        okr = all(getattr(N, dk) is getattr(T, dk) for dk in RATES)
        P.oblige('Transformation.__add__.rates_kept', 'constants.Transformation.__add__', tag, dict(result='discharged' if okr else 'sat', backend='object identity', ms=0), strict=True)
        oke = isinstance(N.ref_epoch, GhostDate) and N.ref_epoch.ordinal is to
        P.oblige('Transformation.__add__.epoch', 'constants.Transformation.__add__', tag, dict(result='discharged' if oke else 'sat', backend='object identity', ms=0), strict=True)
        okl = (N.from_datum, N.to_datum) == ('FROM', 'TO')

        def refute_labels(w):
            import geodepy.constants as CC, datetime
            n_ = CC.itrf2014_to_itrf2008 + datetime.date(2020, 1, 1)
            if (n_.from_datum, n_.to_datum) != (CC.itrf2014_to_itrf2008.from_datum, CC.itrf2014_to_itrf2008.to_datum):
                return dict(call='itrf2014_to_itrf2008 + date(2020,1,1)', observed=[n_.from_datum, n_.to_datum], expected=[CC.itrf2014_to_itrf2008.from_datum, CC.itrf2014_to_itrf2008.to_datum])
        P.oblige('Transformation.__add__.labels_kept', 'constants.Transformation.__add__', tag, dict(result='discharged' if okl else 'sat', backend='object comparison', ms=0, model=None),
                 strict=True, refute=refute_labels, pool=[{}], note='re-referencing a set to another epoch keeps its direction labels; observed (%r, %r)' % (N.from_datum, N.to_datum))

        def refute_frame(w):
            import geodepy.constants as CC, datetime, copy
            t0 = CC.itrf2008_to_gda94
            before = dict(vars(t0.tf_sd))
            keep = copy.copy(t0.tf_sd)
            try:
                t0 + datetime.date(2020, 1, 1)
                after = dict(vars(t0.tf_sd))
            finally:
                t0.tf_sd.__dict__.update(vars(keep))
            if before != after:
                ch = {k: (before[k], after[k]) for k in before if before[k] != after[k]}
                return dict(call='itrf2008_to_gda94 + date(2020,1,1)', observed='shipped constant itrf2008_to_gda94_sd changed: %r' % ch, expected='no write to any object that existed before the call')
        P.oblige('Transformation.__add__.frame', 'constants.Transformation.__add__', tag,
                 dict(result='discharged' if not wb.writes else 'sat', backend='write barrier on pre-existing Transformation/TransformationSD objects, all paths', ms=0, model=None),
                 strict=True, refute=refute_frame, pool=[{}], note='assigns nothing reachable from self; recorded writes: %r' % ([(c, n) for c, n, _, _ in wb.writes],))
        if with_sd:
            # propagated uncertainties: sd' = sqrt(sd^2 + (sd_rate * dt)^2), rate sigmas kept
            nsd = N.tf_sd
            oksd = nsd is not None
            res_all = []
            if oksd:
                for k in PARAMS:
                    sv, rv = lift(sd_before['sd_' + k]), lift(sd_before['sd_d_' + k])
                    dt = days / z3.Q(1461, 4)
                    spec = UF['sqrt'](sv * sv + (rv * dt) * (rv * dt))
                    res_all.append(E.prove_eq(lift(getattr(nsd, 'sd_' + k)), spec, []))
                    oksd = oksd and (getattr(nsd, 'sd_d_' + k) is sd_before['sd_d_' + k])
            P.oblige('Transformation.__add__.uncertainty_propagation', 'constants.Transformation.__add__', tag,
                     dict(result='discharged' if oksd and all(r['result'] == 'discharged' for r in res_all) else 'sat', backend=E.Z3V, ms=sum(r['ms'] for r in res_all)), strict=True,
                     note='the returned set carries sigma\' = sqrt(sigma^2 + (sigma_rate dt)^2) computed from the ORIGINAL sigmas, rate sigmas unchanged')

    # ---------------------------------------------------------------- conform14 = conform7 o __add__
    class GhostDT:
        date = GhostDate
    T = mk(True)
    x, y, z = real('x'), real('y'), real('z')
    rec = {}

    def c7stub(x_, y_, z_, trans, vcv=None):
        rec['args'] = (x_, y_, z_, trans, vcv)
        return ('X7', 'Y7', 'Z7', 'V7')
    Vtok = object()
    with E.rebound(C, date=GhostDate), E.rebound(tr, datetime=GhostDT, conform7=c7stub):
        pp = E.explore(lambda: tr.conform14(x, y, z, GhostDate(to), T, Vtok), [S.is_int(ref.t), S.is_int(to.t)])
        g = 0
        for bad in (None, 5, 'x'):
            try:
                tr.conform14(x, y, z, GhostDate(to), bad)
            except ValueError:
                g += 1
        for bad in (None, 2020, '2020-01-01'):
            try:
                tr.conform14(x, y, z, bad, T)
            except ValueError:
                g += 1
    P.oblige('conform14.guards', 'transform.conform14', 'bad set / bad epoch', dict(result='discharged' if g == 6 else 'sat', backend='native execution', ms=0), strict=True)
    okc = len(pp) == 1 and pp[0]['kind'] == 'ret' and pp[0]['val'] == ('X7', 'Y7', 'Z7', 'V7')
    a = rec.get('args')
    okc = okc and a is not None and a[0] is x and a[1] is y and a[2] is z and a[4] is Vtok and type(a[3]) is C.Transformation
    res_all = []
    if okc:
        for k, dk in zip(PARAMS, RATES):
            spec = r8(lift(getattr(T, k)) + lift(getattr(T, dk)) * (days / z3.Q(1461, 4)))
            res_all.append(E.prove_eq(lift(getattr(a[3], k)), spec, []))
    P.oblige('conform14.compose', 'transform.conform14', 'all', dict(result='discharged' if okc and all(r['result'] == 'discharged' for r in res_all) else 'sat', backend=E.Z3V, ms=0), strict=True,
             note='returns conform7(x, y, z, set advanced to the epoch, vcv) unchanged: point and covariance are passed through, parameters are round8(p + rate*days/365.25)')
    # at the reference epoch the parameters are round8(p): within the 2 um budget of the 7-parameter result
    with E.rebound(C, date=GhostDate):
        N0 = T + GhostDate(ref)
    ok0 = all(E.prove_eq(lift(getattr(N0, k)), r8(lift(getattr(T, k))), [])['result'] == 'discharged' for k in PARAMS)
    P.oblige('conform14.at_reference_epoch', 'transform.conform14', 'days == 0', dict(result='discharged' if ok0 else 'sat', backend=E.Z3V, ms=0), strict=True,
             note='elapsed time 0 => parameters round8(p) (|delta| <= 5e-9 units: <= 0.3 um at 1e7 m)')

    # ---------------------------------------------------------------- formula with the 2 micrometre budget
    calls = []
    box = [v.t >= -10 ** 7 for v in (x, y, z)] + [v.t <= 10 ** 7 for v in (x, y, z)]
    tv = {k: lift(getattr(T, k)) for k in PARAMS + RATES}
    dt = z3.Real('dt_years')
    pbox = [tv[k] >= -1000 for k in ('tx', 'ty', 'tz')] + [tv[k] <= 1000 for k in ('tx', 'ty', 'tz')] + [tv['sc'] >= -100, tv['sc'] <= 100] + \
           [tv[k] > -50 for k in ('rx', 'ry', 'rz')] + [tv[k] < 50 for k in ('rx', 'ry', 'rz')] + [dt >= -45, dt <= 75, dt * z3.Q(1461, 4) == days] + \
           [tv[k] >= -1 for k in ('d_tx', 'd_ty', 'd_tz', 'd_sc')] + [tv[k] <= 1 for k in ('d_tx', 'd_ty', 'd_tz', 'd_sc')] + \
           [tv[k] >= z3.Q(-1, 10) for k in ('d_rx', 'd_ry', 'd_rz')] + [tv[k] <= z3.Q(1, 10) for k in ('d_rx', 'd_ry', 'd_rz')]
    with E.rebound(C, date=GhostDate), E.rebound(tr, datetime=GhostDT, hp2dec=hp2dec_stub(calls)):
        pf = E.explore(lambda: tr.conform14(x, y, z, GhostDate(to), T), [S.is_int(ref.t), S.is_int(to.t)] + box)
    if len(pf) != 1 or pf[0]['kind'] != 'ret':
        raise S.EngineError('conform14: unexpected paths')
    out = pf[0]['val']
    adv = {k: tv[k] + tv['d_' + k] * dt for k in PARAMS}
    spec = H.similarity((x.t, y.t, z.t), (adv['tx'], adv['ty'], adv['tz']), adv['sc'], (adv['rx'], adv['ry'], adv['rz']), PI)
    eps = z3.Q(14, 10 ** 14)
    hyp_hp = [z3.And(HP2DEC(h) - h * 10000 / 3600 <= eps, h * 10000 / 3600 - HP2DEC(h) <= eps) for h in calls]
    tol = z3.Q(2, 10 ** 6)
    for i, c in enumerate('xyz'):
        A_ = E.Abstractor()
        Hy = A_.assume(box + pbox + hyp_hp + [PI > z3.RealVal('3.14159'), PI < z3.RealVal('3.1416')])
        ca, sa = A_.ab(lift(out[i])), A_.ab(spec[i])
        res = E.prove(z3.And(ca - sa <= tol, sa - ca <= tol), Hy + A_.side, use_axioms=False, timeout=180000)
        P.oblige('conform14.formula.' + c, 'transform.conform14', 'vcv=None', res, strict=True,
                 note='|conform14 - similarity(X; p + rate*dt)| <= 2 micrometres, dt = days/365.25 in [-45, 75] years, |X| <= 1e7 m (round8 and hp2dec quantisation inside the budget)')

    # ---------------------------------------------------------------- ATRF2014 <-> GDA2020 wrappers
    rec2 = {}

    def c14stub(x_, y_, z_, ep, trans, vcv=None):
        rec2['args'] = (x_, y_, z_, ep, trans, vcv)
        return 'R14'
    ep = GhostDate(to)
    with E.rebound(tr, conform14=c14stub):
        r_f = tr.transform_atrf2014_to_gda2020(x, y, z, ep, Vtok)
        af = rec2['args']
        r_b = tr.transform_gda2020_to_atrf2014(x, y, z, ep, Vtok)
        ab_ = rec2['args']
    okf = r_f == 'R14' and af[:4] == (x, y, z, ep) and af[4] is C.atrf2014_to_gda2020 and af[5] is Vtok
    P.oblige('transform_atrf2014_to_gda2020.wiring', 'transform.transform_atrf2014_to_gda2020', 'all', dict(result='discharged' if okf else 'sat', backend='call summary', ms=0), strict=True)
    S0 = C.atrf2014_to_gda2020
    okb = r_b == 'R14' and ab_[:4] == (x, y, z, ep) and ab_[5] is Vtok and type(ab_[4]) is C.Transformation and \
        all(getattr(ab_[4], k) == -getattr(S0, k) for k in PARAMS + RATES) and ab_[4].ref_epoch == S0.ref_epoch
    P.oblige('transform_gda2020_to_atrf2014.wiring', 'transform.transform_gda2020_to_atrf2014', 'all', dict(result='discharged' if okb else 'sat', backend='call summary', ms=0), strict=True,
             note='uses the negated plate-motion set at the same epoch')
    # identity at 2020.0: days = 0 and all seven parameters 0 => output = input exactly
    import datetime as _dt
    okp = S0.ref_epoch == _dt.date(2020, 1, 1) and all(getattr(S0, k) == 0 for k in PARAMS) and (S0.d_rx, S0.d_ry, S0.d_rz) == (0.00150379, 0.00118346, 0.00120716) and \
        all(getattr(S0, k) == 0 for k in ('d_tx', 'd_ty', 'd_tz', 'd_sc'))
    P.oblige('plate_motion_model.parameters', 'constants.atrf2014_to_gda2020', 'constants (exhaustive)', dict(result='discharged' if okp else 'sat', backend='native comparison', ms=0), strict=True,
             note='GDA2020 Technical Manual: zero parameters at 2020.0, rotation rates 1.50379, 1.18346, 1.20716 mas/yr')
    T0 = C.Transformation('ATRF2014', 'GDA2020', GhostDate(ref), 0, 0, 0, 0, 0, 0, 0, 0, 0, 0, 0, real('d_rx'), real('d_ry'), real('d_rz'))
    with E.rebound(C, date=GhostDate), E.rebound(tr, datetime=GhostDT, hp2dec=(lambda h: h * 10000 / 3600)):
        pid = E.explore(lambda: tr.conform14(x, y, z, GhostDate(ref), T0))
    oki = len(pid) == 1 and pid[0]['kind'] == 'ret'
    if oki:
        for got, want in zip(pid[0]['val'][:3], (x, y, z)):
            oki = oki and E.prove_eq(lift(got), want.t, [])['result'] == 'discharged'
    P.oblige('conform14.identity_at_reference_epoch_of_zero_set', 'transform.conform14', 'days == 0, parameters 0', dict(result='discharged' if oki else 'sat', backend=E.Z3V, ms=0), strict=True,
             note='exactly the identity at epoch 2020.0 for the plate-motion set (round8(0) = 0)')
    P.summaries += ['conform7 summarised at the conform14 call site (contract C06)', 'hp2dec assumed contract (C08)']
    P.assumptions.append('dates are symbolic day ordinals (every pair of dates incl. leap days and epochs before the reference epoch); datetime.date arithmetic itself is assumed = integer subtraction of ordinals')
    B.report(P, 'bounded.C07')
    P.finish('proof')


def replay(d):
    from bounded import C07 as b
    fi = d.get('failing_input') or {}
    return b.replay_case(d.get('check'), fi.get('input', fi))
