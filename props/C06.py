"""C06 - 7-parameter transformation equals its similarity formula and is reversible.
Functions under contract: transform.conform7, constants.Transformation.__neg__ (hp2dec by assumed contract, decided in C08)."""
import z3, datetime
import numpy as np
import mpmath as mp
from vp import engine as E, sym as S, bounded as B
from vp.report import Prop
from vp.sym import Sym, UF, PI, lift, real
from spec import helmert as H
from .common import *

PARAMS = ('tx', 'ty', 'tz', 'sc', 'rx', 'ry', 'rz')
RATES = tuple('d_' + p for p in PARAMS)
SDS = ('sd_tx', 'sd_ty', 'sd_tz', 'sd_sc', 'sd_rx', 'sd_ry', 'sd_rz')


def sym_transformation(C, with_sd=True, pfx=''):
    sd = C.TransformationSD(**{k: real(pfx + k) for k in SDS}) if with_sd else None
    return C.Transformation('FROM', 'TO', 0, *[real(pfx + k) for k in PARAMS], *[real(pfx + k) for k in RATES], tf_sd=sd)


HP2DEC = z3.Function('HP2DEC', S.R, S.R)


def hp2dec_stub(calls):
    """assumed contract of angles.hp2dec on |h| < 0.006 (rotations below one arc-minute): the value h*10000/3600 up to its
    13-decimal quantisation (<= 1.4e-13 deg).  Decided for floats by C08's exhaustive lattice."""
    def f(h):
        if isinstance(h, Sym):
            calls.append(h.t)
            return Sym(HP2DEC(h.t))
        raise S.EngineError('hp2dec stub: concrete argument')
    return f


def catalogue(C):
    return [(n, v) for n, v in sorted(vars(C).items()) if isinstance(v, C.Transformation)]


def main():
    P = Prop('C06')
    mods = E.load_repo(ALL)
    C, tr = mods['geodepy.constants'], mods['geodepy.transform']
    x, y, z = real('x'), real('y'), real('z')
    T = sym_transformation(C)
    tv = {k: lift(getattr(T, k)) for k in PARAMS}
    box = [x.t >= -5 * 10 ** 7, x.t <= 5 * 10 ** 7, y.t >= -5 * 10 ** 7, y.t <= 5 * 10 ** 7, z.t >= -5 * 10 ** 7, z.t <= 5 * 10 ** 7]
    pbox = [tv[k] >= -1000 for k in ('tx', 'ty', 'tz')] + [tv[k] <= 1000 for k in ('tx', 'ty', 'tz')] + [tv['sc'] >= -100, tv['sc'] <= 100] + \
           [tv[k] > -60 for k in ('rx', 'ry', 'rz')] + [tv[k] < 60 for k in ('rx', 'ry', 'rz')]
    calls = []
    eps = z3.Q(14, 10 ** 14)
    pi_b = [PI > z3.RealVal('3.14159'), PI < z3.RealVal('3.1416')]

    # ---------------------------------------------------------------- guard
    g = 0
    for bad in (None, 'gda94_to_gda2020', 5, C.gda94_to_gda2020_sd):
        try:
            tr.conform7(1.0, 2.0, 3.0, bad)
        except ValueError:
            g += 1
    P.oblige('conform7.guard', 'transform.conform7', 'non-Transformation', dict(result='discharged' if g == 4 else 'sat', backend='native execution', ms=0), strict=True)

    # ---------------------------------------------------------------- formula (no covariance)
    with E.rebound(tr, hp2dec=hp2dec_stub(calls)):
        paths = E.explore(lambda: tr.conform7(x, y, z, T), box + pbox)
    if len(paths) != 1 or paths[0]['kind'] != 'ret':
        raise S.EngineError('conform7: unexpected paths %r' % [(p['kind'], p['val']) for p in paths])
    out = paths[0]['val']
    P.oblige('conform7.vcv_absent', 'transform.conform7', 'vcv=None', dict(result='discharged' if out[3] is None else 'sat', backend='native', ms=0), strict=True)
    spec = H.similarity((x.t, y.t, z.t), (tv['tx'], tv['ty'], tv['tz']), tv['sc'], (tv['rx'], tv['ry'], tv['rz']), PI)
    # hp2dec assumed contract instances
    hyp_hp = []
    for h in calls:
        hyp_hp.append(z3.And(HP2DEC(h) - h * 10000 / 3600 <= eps, h * 10000 / 3600 - HP2DEC(h) <= eps))
    P.oblige('conform7.rotation_units', 'transform.conform7', 'call sites', dict(result='discharged' if len(calls) == 3 and all(
        z3.is_true(z3.simplify(c == tv[k] / 10000)) for c, k in zip(calls, ('rx', 'ry', 'rz'))) else 'sat', backend='syntactic', ms=0), strict=True,
             note='hp2dec is called with arcsec/10000 for rx, ry, rz (0.00SSSS in HP notation): with its contract the rotation is radians(arcsec/3600)')
    tol = z3.Q(1, 10 ** 6)
    for i, c in enumerate('xyz'):
        code = lift(out[i])
        # abstract the three HP2DEC applications by fresh reals within their contract bounds: bilinear inequality over a box
        A_ = E.Abstractor()
        Hy = A_.assume(box + pbox + hyp_hp + pi_b)
        ca, sa = A_.ab(code), A_.ab(spec[i])
        res = E.prove(z3.And(ca - sa <= tol, sa - ca <= tol), Hy + A_.side, use_axioms=False, timeout=120000)

        def refute(w, i=i):
            tt = C.Transformation('A', 'B', 0, *[w.get(k, 0.0) for k in PARAMS])
            if not all(abs(w.get(k, 0.0)) < 60 for k in ('rx', 'ry', 'rz')):
                return None
            got = tr.conform7(w.get('x', 0.0), w.get('y', 0.0), w.get('z', 0.0), tt)
            mp.mp.dps = 50
            want = H.similarity([mp.mpf(w.get(k, 0.0)) for k in 'xyz'], [mp.mpf(w.get(k, 0.0)) for k in ('tx', 'ty', 'tz')], mp.mpf(w.get('sc', 0.0)),
                                [mp.mpf(w.get(k, 0.0)) for k in ('rx', 'ry', 'rz')], mp.pi)
            d = abs(mp.mpf(got[i]) - want[i])
            if d > mp.mpf('1e-6'):
                return dict(call='conform7(x, y, z, Transformation(tx..rz))', component='xyz'[i], observed=got[i], expected=float(want[i]), deviation_m=float(d))
        pool = [dict(x=4e7, y=-3e7, z=2e7, tx=100.0, ty=-50.0, tz=10.0, sc=50.0, rx=30.0, ry=-40.0, rz=55.0), dict(x=-4052051.0, y=4212836.0, z=-2545106.0, **{k: getattr(C.gda94_to_gda2020, k) for k in PARAMS})]
        P.oblige('conform7.formula.' + c, 'transform.conform7', 'vcv=None', res, strict=True, refute=refute, pool=pool, symbols=('x', 'y', 'z') + PARAMS,
                 note='|code - (T + (1+sc 1e-6) R X)| <= 1 micrometre for |X| <= 5e7 m, |t| <= 1000 m, |sc| <= 100 ppm, |r| < 60 arcsec (GDA2020 Technical Manual convention)')
    P.summaries.append('hp2dec: assumed contract |hp2dec(h) - h*10000/3600| <= 1.4e-13 deg for |h| < 0.006 (decided by C08)')

    # ---------------------------------------------------------------- covariance branch
    V = np.array([[real('v%d%d' % (min(i, j), max(i, j))) for j in range(3)] for i in range(3)], dtype=object)
    calls2 = []
    with E.rebound(tr, hp2dec=hp2dec_stub(calls2)):
        pv = E.explore(lambda: tr.conform7(x, y, z, T, V), box + pbox)
    okv = len(pv) == 1 and pv[0]['kind'] == 'ret' and pv[0]['val'][3] is not None

    def refute_vcv(w):
        try:
            r = tr.conform7(-4052051.0, 4212836.0, -2545106.0, C.gda94_to_gda2020, np.eye(3) * 1e-4)
            return None if r[3] is not None else dict(call='conform7(x, y, z, gda94_to_gda2020, eye(3)*1e-4)', observed='no covariance returned')
        except Exception as ex:
            return dict(call='conform7(-4052051.0, 4212836.0, -2545106.0, gda94_to_gda2020, numpy.eye(3)*1e-4)', observed='%s: %s' % (type(ex).__name__, ex),
                        expected='a 3x3 covariance')
    P.oblige('conform7.vcv_no_exception', 'transform.conform7', 'vcv given, tf_sd present', dict(result='discharged' if okv else 'sat', backend='symbolic execution (all paths)', ms=0,
                                                                                                   model=None), strict=True, refute=refute_vcv, pool=[{}],
             note='a covariance is returned whenever one is supplied and the set carries uncertainties; observed: %r' % ([(p['kind'], p['val'] if p['kind'] == 'raise' else '') for p in pv],))
    if okv:
        W = pv[0]['val'][3]
        Wm = [[lift(W[i, j]) for j in range(3)] for i in range(3)]
        sdv = {k: lift(getattr(T.tf_sd, k)) for k in SDS}
        rr = [HP2DEC(tv[k] / 10000) * PI / 180 for k in ('rx', 'ry', 'rz')]
        # J: symbolic derivative (sympy) of the similarity formula itself, evaluated at the code's own scale and rotations
        import sympy as sp
        xs = sp.symbols('x y z s rx ry rz tx ty tz')
        sx, sy, sz, ss, srx, sry, srz, stx, sty, stz = xs
        F = sp.Matrix([stx + ss * (sx + srz * sy - sry * sz), sty + ss * (-srz * sx + sy + srx * sz), stz + ss * (sry * sx - srx * sy + sz)])
        Js = F.jacobian(sp.Matrix(xs))
        vals = dict(x=x.t, y=y.t, z=z.t, s=1 + tv['sc'] / 1000000, rx=rr[0], ry=rr[1], rz=rr[2])
        J = [[H._ev(Js[i, j], vals) for j in range(10)] for i in range(3)]
        J = [[z3.RealVal(v) if isinstance(v, (int, float)) else v for v in row] for row in J]
        Q = [[z3.RealVal(0)] * 10 for _ in range(10)]
        for i in range(3):
            for j in range(3):
                Q[i][j] = lift(V[i, j])
        Q[3][3] = (sdv['sd_sc'] / 1000000) * (sdv['sd_sc'] / 1000000)
        for k, nm in enumerate(('sd_rx', 'sd_ry', 'sd_rz')):
            r_ = sdv[nm] / 3600 * PI / 180
            Q[4 + k][4 + k] = r_ * r_
        for k, nm in enumerate(('sd_tx', 'sd_ty', 'sd_tz')):
            Q[7 + k][7 + k] = sdv[nm] * sdv[nm]
        JQ = [[sum((J[i][k] * Q[k][j] for k in range(10)), z3.RealVal(0)) for j in range(10)] for i in range(3)]
        JQJ = [[sum((JQ[i][k] * J[j][k] for k in range(10)), z3.RealVal(0)) for j in range(3)] for i in range(3)]
        A_ = E.Abstractor()
        goal = z3.And(*[A_.ab(Wm[i][j]) == A_.ab(JQJ[i][j]) for i in range(3) for j in range(3)])
        P.oblige('conform7.vcv_value', 'transform.conform7', 'vcv given', E.prove(goal, A_.side + pi_b, use_axioms=False, timeout=120000), strict=True,
                 note='returned covariance = J Q J^T with J the symbolic derivative (sympy) of the similarity formula w.r.t. (x,y,z,s,rx,ry,rz,tx,ty,tz) and Q = blockdiag(V, sigma^2 in formula units)')
        A_ = E.Abstractor()
        Wa = [[A_.ab(Wm[i][j]) for j in range(3)] for i in range(3)]
        P.oblige('conform7.vcv_symmetric', 'transform.conform7', 'vcv symmetric', E.prove(z3.And(Wa[0][1] == Wa[1][0], Wa[0][2] == Wa[2][0], Wa[1][2] == Wa[2][1]), A_.side, use_axioms=False), strict=True)
        # PSD form: v^T (J Q J^T) v = (J^T v)^T Q (J^T v); Q is V plus squares on the diagonal, hence PSD whenever V is
        vv = [z3.Real('w%d' % i) for i in range(3)]
        A_ = E.Abstractor()
        Ja = [[A_.ab(J[i][k]) for k in range(10)] for i in range(3)]
        Qa = [[A_.ab(Q[i][j]) for j in range(10)] for i in range(10)]
        Wa = [[A_.ab(Wm[i][j]) for j in range(3)] for i in range(3)]
        u = [sum((Ja[i][k] * vv[i] for i in range(3)), z3.RealVal(0)) for k in range(10)]
        lhs = sum((vv[i] * Wa[i][j] * vv[j] for i in range(3) for j in range(3)), z3.RealVal(0))
        rhs = sum((u[k] * Qa[k][l] * u[l] for k in range(10) for l in range(10) if not z3.is_rational_value(Qa[k][l]) or Qa[k][l].as_fraction() != 0), z3.RealVal(0))
        P.oblige('conform7.vcv_psd_form', 'transform.conform7', 'lemma', E.prove(lhs == rhs, A_.side, use_axioms=False, timeout=120000), strict=True,
                 note='quadratic form of the result equals the quadratic form of Q at J^T v: positive semi-definite whenever the input covariance is')

    # ---------------------------------------------------------------- negation
    n_ = -T
    okn = (n_.from_datum, n_.to_datum, n_.ref_epoch) == ('TO', 'FROM', 0) and n_.tf_sd is T.tf_sd
    for k in PARAMS + RATES:
        okn = okn and z3.is_true(z3.simplify(lift(getattr(n_, k)) == -lift(getattr(T, k))))
    P.oblige('Transformation.__neg__.contract', 'constants.Transformation.__neg__', 'all', dict(result='discharged' if okn else 'sat', backend='syntactic', ms=0), strict=True,
             note='14 parameters negated, labels swapped, reference epoch kept')

    # ---------------------------------------------------------------- round trip with the negated set, every shipped set
    cat = catalogue(C)
    exact = lambda h: (h * 10000 / 3600) if isinstance(h, Sym) else float(h) * 10000 / 3600
    bad = []
    worst = {}
    mp.mp.dps = 40
    for name, t_ in cat:
        with E.rebound(tr, hp2dec=exact):
            a1 = tr.conform7(x, y, z, t_)
            a2 = tr.conform7(a1[0], a1[1], a1[2], -t_)
        lim = mp.mpf('2e-3') if ('agd66' in name or 'agd84' in name) else mp.mpf('1e-5')
        w = mp.mpf(0)
        for i in range(3):
            term = lift(a2[i]) - (x.t, y.t, z.t)[i]
            base = E.evaluate(term, dict(x=0, y=0, z=0), dps=40)
            coefs = [E.evaluate(term, dict(x=int(k == 0), y=int(k == 1), z=int(k == 2)), dps=40) - base for k in range(3)]
            # affine check (second difference vanishes)
            chk = E.evaluate(term, dict(x=3, y=-2, z=5), dps=40) - (base + 3 * coefs[0] - 2 * coefs[1] + 5 * coefs[2])
            if abs(chk) > mp.mpf(10) ** -30:
                raise S.EngineError('round trip of %s is not affine' % name)
            w = max(w, abs(base) + sum(abs(c_) for c_ in coefs) * 5 * 10 ** 7)
        worst[name] = float(w)
        if w > lim:
            bad.append((name, float(w)))
    P.oblige('conform7.roundtrip[catalogue]', 'transform.conform7', '%d shipped sets (exhaustive)' % len(cat),
             dict(result='discharged' if not bad and len(cat) >= 100 else 'sat', backend='exact affine evaluation of the symbolic result (mpmath 40 digits), sup over the box', ms=0), strict=True,
             refute=(lambda w_: dict(sets=bad)) if bad else None, pool=[{}] if bad else (),
             note='sup over |x|,|y|,|z| <= 5e7 m of |conform7(conform7(X, T), -T) - X|: <= 0.01 mm (2 mm for AGD66/84); largest non-AGD %.2e m, largest AGD %.2e m' % (
                 max([v for k, v in worst.items() if 'agd' not in k] or [0]), max([v for k, v in worst.items() if 'agd' in k] or [0])))

    # engine cross-check
    rng = P.rng
    envs = []
    for _ in range(20):
        w = dict(x=rng.uniform(-5e7, 5e7), y=rng.uniform(-5e7, 5e7), z=rng.uniform(-5e7, 5e7))
        w.update({k: rng.uniform(-1, 1) for k in PARAMS})
        w.update({k: 0.0 for k in RATES})
        w.update({k: 0.001 for k in SDS})
        envs.append(w)
    real_hp = mods['geodepy.angles'].hp2dec
    pts, wr, cov = E.crosscheck(paths, envs, lambda w: tr.conform7(w['x'], w['y'], w['z'], C.Transformation('A', 'B', 0, *[w[k] for k in PARAMS]))[:3],
                                flatten=lambda v: list(v)[:3], uf_env={'HP2DEC': lambda h: mp.mpf(real_hp(float(h)))})
    P.crosscheck(pts, wr, cov, len(paths))
    B.report(P, 'bounded.C06')
    P.finish('proof')


def replay(d):
    from bounded import C06 as b
    fi = d.get('failing_input') or {}
    return b.replay_case(d.get('check'), fi.get('input', fi))
