"""C03 - geodetic <-> Cartesian exact and self-inverse on every ellipsoid.
Functions under contract: convert.llh2xyz, convert.xyz2llh (real functions run on symbols; loop cut)."""
import z3, random
import mpmath as mp
from vp import engine as E, sym as S
from vp.report import Prop
from vp.sym import Sym, UF, PI, lift, real
from vp import bounded as B
from spec.M import MSym, MMp
from spec import geo
from .common import *


def main():
    P = Prop('C03')
    mods = E.load_repo(CORE)
    C, cv, ang = mods['geodepy.constants'], mods['geodepy.convert'], mods['geodepy.angles']
    ell = sym_ellipsoid(C)
    lat, lon, h = real('lat'), real('lon'), real('h')
    vell = valid_ellipsoid(ell)
    pre = vell + [lat.t >= -90, lat.t <= 90, lon.t >= -360, lon.t <= 360, h.t >= -10000, h.t <= 40000000]
    SYMS = ('lat', 'lon', 'h', 'a', 'invf')
    rng = random.Random(P.seed)
    ells = ellipsoid_pool(C, rng)
    pool = [dict(lat=la, lon=lo, h=hh, **ell_env(e)) for e in ells for la in (0.0, -37.5, 90.0, -90.0, 1e-9, 45.0, -1e-12)
            for lo in (0.0, 144.9, -179.5, 359.0) for hh in (0.0, -1e4, 4e7)]

    def native_llh(w):
        return cv.llh2xyz(w['lat'], w['lon'], w['h'], C.Ellipsoid(w['a'], w['invf']))

    def refute_closed(k):
        def f(w):
            if not (-90 <= w['lat'] <= 90 and -360 <= w['lon'] <= 360 and 6.3e6 <= w['a'] <= 6.4e6 and 150 <= w['invf'] <= 400
                    and -1e4 <= w['h'] <= 4e7):
                return None
            nat = native_llh(w)
            mp.mp.dps = 50
            want = geo.geodetic_to_cart(mp.mpf(w['lat']), mp.mpf(w['lon']), mp.mpf(w['h']), mp.mpf(w['a']), mp.mpf(w['invf']), MMp)
            dev = abs(mp.mpf(nat[k]) - want[k])
            if dev > mp.mpf('1e-6'):
                return dict(call='llh2xyz(lat, lon, h, Ellipsoid(a, invf))', component='xyz'[k], observed=nat[k],
                            expected=float(want[k]), deviation_m=float(dev))
        return f

    # ------------------------------------------------------------------ llh2xyz
    P.log('llh2xyz')
    paths = E.explore(lambda: cv.llh2xyz(lat, lon, h, ell), pre, history=True, label="convert.llh2xyz")
    if len(paths) < 1 or any(p['kind'] != 'ret' for p in paths):
        raise S.EngineError('llh2xyz: unexpected path set %r' % [(p['kind'], p['val']) for p in paths if p['kind'] != 'ret'])
    sx = geo.geodetic_to_cart(lat.t, lon.t, h.t, lift(ell.semimaj), lift(ell.inversef), MSym)
    for i, p in enumerate(paths):
        tag = 'path%d:%s' % (i, ','.join('T' if d else 'F' for d in p['decisions']) or '-')
        for k, comp in enumerate('xyz'):
            code = p['val'][k].t
            hy = pre + p['pc']
            res = E.prove_eq(code, sx[k], hy)
            P.oblige('C03.llh2xyz.closed_form.' + comp, 'convert.llh2xyz', tag, res, refute=refute_closed(k),
                     pool=[w for w in pool], code=code, spec=sx[k], hyps=hy, symbols=SYMS)
    # definition-level clauses (not a restatement of the formula): the point lowered by h along the normal lies on the
    # ellipsoid and the ellipsoid normal there is (cos phi cos lam, cos phi sin lam, sin phi)
    a_ = lift(ell.semimaj)
    f_ = 1 / lift(ell.inversef)
    b_ = a_ * (1 - f_)
    e2_ = f_ * (2 - f_)
    sp, cp = UF['sin'](lat.t * PI / 180), UF['cos'](lat.t * PI / 180)
    sl, cl = UF['sin'](lon.t * PI / 180), UF['cos'](lon.t * PI / 180)
    W = UF['sqrt'](1 - e2_ * sp * sp)
    for i, p in enumerate(paths):
        tag = 'path%d' % i
        x, y, z = [v.t for v in p['val']]
        x0, y0, z0 = x - h.t * cp * cl, y - h.t * cp * sl, z - h.t * sp
        A = E.Abstractor()
        hy = A.assume(pre + p['pc'] + [W > 0, 1 - e2_ * sp * sp > 0])
        g1 = A.ab(x0 * x0 / (a_ * a_) + y0 * y0 / (a_ * a_) + z0 * z0 / (b_ * b_)) == 1
        P.oblige('C03.llh2xyz.foot_on_ellipsoid', 'convert.llh2xyz', tag, E.prove(g1, hy + A.side, use_axioms=False), strict=True,
                 refute=None)
        g = (x0 / (a_ * a_), y0 / (a_ * a_), z0 / (b_ * b_))
        nrm = (cp * cl, cp * sl, sp)
        A = E.Abstractor()
        hy = A.assume(pre + p['pc'] + [W > 0, 1 - e2_ * sp * sp > 0])
        g2 = z3.And(A.ab(g[1] * nrm[2] - g[2] * nrm[1]) == 0, A.ab(g[2] * nrm[0] - g[0] * nrm[2]) == 0,
                    A.ab(g[0] * nrm[1] - g[1] * nrm[0]) == 0)
        P.oblige('C03.llh2xyz.normal_parallel', 'convert.llh2xyz', tag, E.prove(g2, hy + A.side, use_axioms=False), strict=True)
    # angle-object arguments: any notation == its decimal value
    for cls in ('DECAngle', 'GONAngle'):
        mk = getattr(ang, cls)
        if cls == 'DECAngle':
            o1, o2 = mk(lat), mk(lon)
            d1, d2 = lat, lon
        else:
            o1, o2 = mk(lat * 10 / 9), mk(lon * 10 / 9)
            d1, d2 = o1.dec(), o2.dec()
        pa = E.explore(lambda: cv.llh2xyz(o1, o2, h, ell), pre)
        pb = E.explore(lambda: cv.llh2xyz(d1, d2, h, ell), pre)
        ok = len(pa) == len(pb) and all(
            z3.is_true(z3.simplify(z3.And(*[u.t == v.t for u, v in zip(x['val'], y['val'])]))) for x, y in zip(pa, pb))
        P.oblige('C03.llh2xyz.angle_objects', 'convert.llh2xyz', cls,
                 dict(result='discharged' if ok else 'sat', backend='syntactic term identity (z3.simplify)', ms=0), strict=True)
    # engine cross-check + covers
    envs = [dict(lat=rng.choice([0.0, rng.uniform(-90, 90)]), lon=rng.uniform(-360, 360), h=rng.uniform(-1e4, 4e7),
                 a=rng.uniform(6.3e6, 6.4e6), invf=rng.uniform(150, 400)) for _ in range(60)]
    pts, worst, cov = E.crosscheck(paths, envs, native_llh)
    P.crosscheck(pts, worst, cov, len(paths))

    # ------------------------------------------------------------------ xyz2llh (loop cut; summary = UF of the loop read-set)
    P.log('xyz2llh')
    X, Y, Z = real('X'), real('Y'), real('Z')
    LATFIX = z3.Function('LOOP_xyz2llh_lat', *([S.R] * 6))
    ICHK = z3.Function('LOOP_xyz2llh_itercheck', *([S.R] * 6))

    def summary(lid, names, vals, rnames, rvals):
        rd = E.LOOPS[lid]['reads']
        args = [lift(rd['p']), lift(rd['z']), lift(ell.semimaj), lift(ell.ecc1sq), lift(E.LOOPS[lid]['entry']['lat'])]
        out = []
        for n in names:
            if n == 'lat':
                out.append(Sym(LATFIX(*args)))
            elif n == 'itercheck':
                out.append(Sym(ICHK(*args)))
            else:
                out.append(Sym(z3.Real('LOOP_xyz2llh_' + n)))
        return tuple(out)
    def native_roundtrip(w):
        """the property itself on the real function: xyz2llh(x, y, z) fed back through the 50-digit closed form returns (x, y, z) within 0.02 mm"""
        import geodepy.convert as cvn, geodepy.constants as Cn
        mp.mp.dps = 50
        for a_, invf_ in ((6378137.0, 298.257222101), (6378388.0, 297.0), (6310000.0, 151.0)):
            for la_ in (-77.3, -33.0, 0.0, 12.5, 45.0, 89.0):
                for h_ in (-5000.0, 0.0, 8848.0, 4.0e5, 2.0e7, 4.0e7):
                    lo_ = 151.2
                    x_, y_, z_ = [float(v) for v in geo.geodetic_to_cart(mp.mpf(la_), mp.mpf(lo_), mp.mpf(h_), mp.mpf(a_), mp.mpf(invf_), MMp)]
                    la2, lo2, h2 = cvn.xyz2llh(x_, y_, z_, Cn.Ellipsoid(a_, invf_))
                    back = geo.geodetic_to_cart(mp.mpf(la2), mp.mpf(lo2), mp.mpf(h2), mp.mpf(a_), mp.mpf(invf_), MMp)
                    dev = max(abs(mp.mpf(u) - v) for u, v in zip((x_, y_, z_), back))
                    if dev > mp.mpf('2e-5'):
                        return dict(call='xyz2llh(%r, %r, %r, Ellipsoid(%r, %r))' % (x_, y_, z_, a_, invf_), observed=(la2, lo2, h2), deviation_m=float(dev),
                                    expected='a position whose closed-form Cartesian image is the input within 0.02 mm', input=dict(x=x_, y=y_, z=z_, a=a_, invf=invf_))
        return None

    def loop_contract():
        xyz2llh_cut = E.cut_loops(cv.xyz2llh, cv, summary)
        prex = vell + [X.t * X.t + Y.t * Y.t > 0]
        paths2 = E.explore(lambda: xyz2llh_cut(X, Y, Z, ell), prex, label="convert.xyz2llh")
        kinds = sorted(p['kind'] for p in paths2)
        if 'loopback' not in kinds or 'ret' not in kinds:
            raise S.EngineError('xyz2llh: loop cut produced path kinds %r' % kinds)
        L = E.LOOPS['xyz2llh#while1']
        P.loops.append(dict(loop='convert.xyz2llh#while1', cut='havoc/if/back', summary='UF of (p, z, a, e2, latinit)',
                            invariant='none needed (exit facts come from the negated guard)', names=list(L['head'])))
        lat_h = L['head']['lat'].t
        pz = lift(L['reads']['p'])
        e2 = lift(ell.ecc1sq)
        am = lift(ell.semimaj)
        nu_h = am / UF['sqrt'](1 - e2 * UF['sin'](lat_h) ** 2)
        step = UF['atan']((Z.t + nu_h * e2 * UF['sin'](lat_h)) / pz)
        P.oblige('C03.xyz2llh.fixed_point_body', 'convert.xyz2llh', 'loop body',
                 E.prove_eq(L['post']['lat'].t, step, []), code=L['post']['lat'].t, spec=step)
        P.oblige('C03.xyz2llh.itercheck_is_step', 'convert.xyz2llh', 'loop body',
                 E.prove_eq(L['post']['itercheck'].t, lat_h - step, []), code=L['post']['itercheck'].t, spec=lat_h - step)
        P.oblige('C03.xyz2llh.p_is_axis_distance', 'convert.xyz2llh', 'entry',
                 E.prove_eq(pz, UF['sqrt'](X.t * X.t + Y.t * Y.t), []), code=pz, spec=UF['sqrt'](X.t * X.t + Y.t * Y.t))
        for p in [q for q in paths2 if q['kind'] == 'ret']:
            la, lo, hh = [v.t for v in p['val']]
            ic = L['head']['itercheck'].t
            tol = z3.Q(1, 10 ** 10)
            P.oblige('C03.xyz2llh.exit', 'convert.xyz2llh', 'exit', E.prove(z3.And(ic <= tol, ic >= -tol), p['pc']), strict=True,
                     note='loop exit implies |last step| <= 1e-10 rad')
            P.oblige('C03.xyz2llh.lon', 'convert.xyz2llh', 'exit',
                     E.prove(z3.And(lo == UF['atan2'](Y.t, X.t) * 180 / PI, lo > -180, lo <= 180), prex + p['pc']), strict=True)
            P.oblige('C03.xyz2llh.lat_is_loop_result', 'convert.xyz2llh', 'exit',
                     E.prove_eq(la, lat_h * 180 / PI, []), code=la, spec=lat_h * 180 / PI)
            # inverse at a fixed point (taken from the property statement, not from the code's height formula): if the loop
            # result lat_h is a fixed point of the body, the closed form maps the RETURNED (lat, lon, h) back to (X, Y, Z)
            fp = lat_h == step
            pp = UF['sqrt'](X.t * X.t + Y.t * Y.t)
            lam = UF['atan2'](Y.t, X.t)
            xs = ((nu_h + hh) * UF['cos'](lat_h) * UF['cos'](lam), (nu_h + hh) * UF['cos'](lat_h) * UF['sin'](lam),
                  ((1 - e2) * nu_h + hh) * UF['sin'](lat_h))
            hyp = prex + [fp, pz == pp, pp > 0, UF['cos'](lat_h) > 0, lo == lam * 180 / PI, la == lat_h * 180 / PI,
                          1 - e2 * UF['sin'](lat_h) ** 2 > 0]
            sh, ch = UF['sin'](lat_h), UF['cos'](lat_h)
            fp_trig = sh * pz == (Z.t + nu_h * e2 * sh) * ch
            P.oblige('C03.xyz2llh.fixed_point_trig_form', 'convert.xyz2llh', 'lemma',
                     E.prove_abs(fp_trig, [fp, pz > 0, ch > 0]), strict=True,
                     note='lat = atan(q) implies sin(lat) p = (z + nu e2 sin lat) cos(lat)')
            hyp = hyp + [fp_trig]
            P.oblige('C03.xyz2llh.inverse_at_fixed_point', 'convert.xyz2llh', 'exit',
                     E.prove_abs(z3.And(xs[0] == X.t, xs[1] == Y.t, xs[2] == Z.t), hyp, timeout=120000), strict=True,
                     note='llh2xyz_spec(returned lat, lon, h) == (X, Y, Z) whenever the loop result is a fixed point of the body')

    try:
        loop_contract()
    except (S.EngineError, KeyError) as ex:
        # the function no longer has the shape of the contract (no latitude loop, or its state is named differently): the loop
        # obligations cannot be stated; the property clause itself is put to the real function, and the bounded layer decides
        why = 'xyz2llh no longer matches the loop contract (%s: %s)' % (type(ex).__name__, str(ex)[:100])
        P.oblige('C03.xyz2llh.inverse_of_llh2xyz', 'convert.xyz2llh', 'whole function', dict(result=why, backend='native refutation sweep', ms=0), strict=True, soft=True,
                 refute=native_roundtrip, pool=[{}], note='xyz2llh followed by the closed form returns the input within 0.02 mm (ellipsoids, latitudes, heights -5 km .. 40 000 km)')
    P.assumptions.append('assumed lemma: the latitude fixed-point iteration of xyz2llh contracts (factor ~ e^2 nu/(nu+h) < 0.007), so an exit step <= 1e-10 rad leaves an error far below 0.02 mm; proved: step form, exit criterion, exact inverse at a fixed point; convergence itself is checked by Layer B only')
    P.summaries.append('LOOP_xyz2llh_lat / LOOP_xyz2llh_itercheck: loop summary, uninterpreted functions of the loop read-set')

    # ------------------------------------------------------------------ Layer B
    # ---------------------------------------------------------------- the object API named as an observation point (props/coordlib.py)
    from . import coordlib
    m2 = E.load_repo(tuple(CORE) + ('geodepy.coord',))
    coordlib.wiring(P, m2, sym_ellipsoid(m2['geodepy.constants']), sym_projection(m2['geodepy.constants']), ('CoordGeo.cart', 'CoordCart.geo'))
    B.report(P, 'bounded.C03')
    P.finish('proof')


def replay(d):
    if (d.get('obligation') or '').startswith('Coord'):
        from . import coordlib
        return coordlib.replay_wiring(d['obligation'])
    from bounded import C03 as b
    fi = d.get('failing_input') or {}
    inp = fi.get('input', fi)
    if d.get('layer') == 'B':
        return b.replay_case(d.get('check'), inp)
    import geodepy.convert as cv, geodepy.constants as C
    mp.mp.dps = 50
    if 'x' in inp and 'lat' not in inp:
        la2, lo2, h2 = cv.xyz2llh(inp['x'], inp['y'], inp['z'], C.Ellipsoid(inp['a'], inp['invf']))
        back = geo.geodetic_to_cart(mp.mpf(la2), mp.mpf(lo2), mp.mpf(h2), mp.mpf(inp['a']), mp.mpf(inp['invf']), MMp)
        dev = max(abs(mp.mpf(u) - v) for u, v in zip((inp['x'], inp['y'], inp['z']), back))
        return dict(input=inp, observed=(la2, lo2, h2), deviation_m=float(dev)) if dev > mp.mpf('2e-5') else None
    nat = cv.llh2xyz(inp['lat'], inp['lon'], inp['h'], C.Ellipsoid(inp['a'], inp['invf']))
    want = geo.geodetic_to_cart(mp.mpf(inp['lat']), mp.mpf(inp['lon']), mp.mpf(inp['h']), mp.mpf(inp['a']), mp.mpf(inp['invf']), MMp)
    dev = max(abs(mp.mpf(n) - w) for n, w in zip(nat, want))
    if dev > mp.mpf('1e-6'):
        return dict(input=inp, observed=nat, expected=[float(w) for w in want], deviation_m=float(dev))
    return None
