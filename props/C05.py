"""C05 - inverse geodesic solution exact, symmetric and longitude-shift invariant.
Function under contract: geodesy.vincinv (lambda loop cut)."""
import z3
from vp import engine as E, sym as S, bounded as B
from vp.report import Prop
from vp.sym import Sym, UF, PI, lift, real
from spec.M import MSym
from spec import vincenty as V
from .common import *
from .C04 import loop_hook


def is_exh(p):
    return any(z3.is_const(c) and str(c).startswith('exhausted!') for c in p['pc'])


def main():
    P = Prop('C05')
    mods = E.load_repo(ALL)
    C, gd, ang = mods['geodepy.constants'], mods['geodepy.geodesy'], mods['geodepy.angles']
    ell = sym_ellipsoid(C)
    vell = valid_ellipsoid(ell, earthlike=True)
    lat1, lon1, lat2, lon2 = real('lat1'), real('lon1'), real('lat2'), real('lon2')
    box = [lat1.t >= -90, lat1.t <= 90, lat2.t >= -90, lat2.t <= 90, lon1.t >= -540, lon1.t <= 540, lon2.t >= -540, lon2.t <= 540]
    pre = vell + box
    a_, f_ = lift(ell.semimaj), 1 / lift(ell.inversef)
    b_ = a_ * (1 - f_)
    r3, r9 = S.round_uf(3), S.round_uf(9)
    tol = z3.Q(1, 10 ** 10)
    absz = lambda x: z3.If(x >= 0, x, -x)

    def run(la1, lo1, la2, lo2, prefix='VINV', hook=None):
        vi = E.cut_loops(gd.vincinv, gd, hook or loop_hook(prefix), cut_for=True)
        E.LOOPS.pop('vincinv#for1', None)
        paths = E.explore(lambda: vi(la1, lo1, la2, lo2, ell), pre)
        return paths, dict(E.LOOPS['vincinv#for1'])

    paths, LP = run(lat1, lon1, lat2, lon2)
    rets = [p for p in paths if p['kind'] == 'ret']
    backs = [p for p in paths if p['kind'] == 'loopback']
    if not backs or len(rets) < 5:
        raise S.EngineError('vincinv: unexpected path set %r' % [(p['kind'], len(p['decisions'])) for p in paths])
    # ---------------------------------------------------------------- coincident points
    co = [p for p in rets if not isinstance(p['val'][0], Sym)]
    okc = len(co) == 1 and tuple(co[0]['val']) == (0, 0, 0)
    if okc:
        s = z3.Solver()
        s.add(*co[0]['pc'])
        s.add(z3.Not(z3.And(absz(lat1.t - lat2.t) < tol, absz(lon1.t - lon2.t) < tol)))
        okc = s.check() == z3.unsat
        for p in rets:
            if p is not co[0]:
                s = z3.Solver()
                s.add(*[c for c in p['pc'][:2]])
                s.add(z3.And(absz(lat1.t - lat2.t) < tol, absz(lon1.t - lon2.t) < tol))
                okc = okc and s.check() == z3.unsat
    P.oblige('vincinv.coincident', 'geodesy.vincinv', 'shortcut', dict(result='discharged' if okc else 'sat', backend=E.Z3V, ms=0), strict=True,
             note='returns (0, 0, 0) exactly when |dlat| and |dlon| are both below 1e-10 deg')
    # ---------------------------------------------------------------- setup and loop body
    U1 = UF['atan']((1 - f_) * UF['tan'](lat1.t * PI / 180))
    U2 = UF['atan']((1 - f_) * UF['tan'](lat2.t * PI / 180))
    Lsp = (lon2.t - lon1.t) * PI / 180
    # one loop-body path per way of reaching the loop (exactly one on the unchanged tree); every path carries its own loop record
    for bi, pb_ in enumerate(backs):
        LPi = pb_['loops']['vincinv#for1']
        sfx = '' if len(backs) == 1 else ' #%d' % (bi + 1)
        hyb = pre + E.small(pb_['pc'])
        rd = LPi['reads']
        # named temporaries of the setup (when the code still has them under these names; the loop-body obligations below do not depend on names)
        for nm, key_, spec, src in (('U1', 'u1', U1, rd), ('U2', 'u2', U2, rd), ('L', 'omega', Lsp, rd), ('lambda0', 'lon', Lsp, LPi['entry'])):
            if key_ not in src:
                P.notes.append('vincinv: no temporary named %r reaches the loop any more; clause vincinv.%s is carried by the loop-body obligations' % (key_, nm))
                continue
            code = lift(src[key_])
            P.oblige('vincinv.' + nm, 'geodesy.vincinv', 'setup' + sfx, E.prove_eq(code, spec, hyb), code=code, spec=spec, hyps=hyb)
        lh = lift(LPi['head']['lon'])
        new, aux = V.inverse_step(U1, U2, lh, Lsp, f_, MSym)
        for nm, code, spec in (('lambda_step', LPi['post']['lon'], new), ('sigma', LPi['post']['sigma'], aux['sigma']), ('alpha', LPi['post']['alpha'], aux['alpha']),
                               ('cos_two_sigma_m', LPi['post']['cos_two_sigma_m'], aux['cos2sm'])):
            P.oblige('vincinv.' + nm, 'geodesy.vincinv', 'loop body' + sfx, E.prove_eq(lift(code), spec, hyb), code=lift(code), spec=spec, hyps=hyb,
                     note='Vincenty 1975 inverse iteration with the f of the ellipsoid argument')
    # ---------------------------------------------------------------- iteration cap
    caps = [pb_['loops']['vincinv#for1'].get('range') for pb_ in backs]
    capv = [(c_[0] if len(c_) == 1 else (c_[1] - c_[0] if len(c_) >= 2 else None)) if c_ else None for c_ in caps]
    okcap = all(isinstance(v_, int) and v_ >= 40 for v_ in capv)
    P.oblige('vincinv.iteration_cap', 'geodesy.vincinv', 'range(%s)' % (capv[0] if capv else '?'), dict(result='discharged' if okcap else 'sat', backend='loop record', ms=0), strict=True,
             note='the lambda iteration may run at least 40 times: for separations up to 178 deg of arc it needs up to about 20 passes (assumed convergence lemma, twofold margin; checked by the bounded layer on nearly antipodal pairs); found caps %r' % (capv,))
    # ---------------------------------------------------------------- exits
    for p in rets:
        if p in co:
            continue
        exh = is_exh(p)
        wrap = None
        tag = ('cap reached' if exh else 'converged')
        LPp = p['loops']['vincinv#for1']
        lh = lift(LPp['head']['lon'])
        new, aux = V.inverse_step(U1, U2, lh, Lsp, f_, MSym)
        if exh:
            lam, sig, alp, c2 = lh, lift(LPp['head']['sigma']), lift(LPp['head']['alpha']), lift(LPp['head']['cos_two_sigma_m'])
        else:
            lam, sig, alp, c2 = new, aux['sigma'], aux['alpha'], aux['cos2sm']
        s_sp, az1, az2 = V.inverse_finish(U1, U2, lam, sig, alp, c2, a_, b_, MSym)
        d_c, a12, a21 = [lift(v) for v in p['val']]
        hy = pre + E.small(p['pc'])
        az1d = az1 * 180 / PI
        # which side of the wrap is this path on?
        neg = p['decisions'][-1]
        tag += ':az<0' if neg else ':az>=0'
        if not exh:
            A_ = E.Abstractor()
            H = A_.assume(pre + p['pc'])
            d = A_.ab(new - lh)
            t12 = z3.Q(1, 10 ** 12)
            P.oblige('vincinv.lambda_exit', 'geodesy.vincinv', tag, E.prove(z3.And(d < t12, d > -t12), H + A_.side, use_axioms=False, timeout=15000), strict=True,
                     goal=z3.And(new - lh < t12, new - lh > -t12), hyps=pre + list(p['pc']))
        P.oblige('vincinv.distance', 'geodesy.vincinv', tag, E.prove_eq(d_c, r3(s_sp), hy), code=d_c, spec=r3(s_sp), hyps=hy,
                 note='s = b A (sigma - delta_sigma) with A, B from the a, b of the ellipsoid argument')
        sp12 = r9(az1d + 360) if neg else r9(az1d)
        P.oblige('vincinv.azimuth1to2', 'geodesy.vincinv', tag, E.prove_eq(a12, sp12, hy), code=a12, spec=sp12, hyps=hy)
        A_ = E.Abstractor()
        H = A_.assume(pre + p['pc'])
        azv = A_.ab(az1d)
        P.oblige('vincinv.azimuth_wrap', 'geodesy.vincinv', tag, E.prove((azv < 0) if neg else (azv >= 0), H + A_.side, use_axioms=False), strict=True,
                 goal=(az1d < 0) if neg else (az1d >= 0), hyps=pre + list(p['pc']),
                 note='360 is added exactly when the forward azimuth is negative: result in [0, 360)')
        P.oblige('vincinv.azimuth2to1', 'geodesy.vincinv', tag, E.prove_eq(a21, r9(az2 * 180 / PI + 180), hy), code=a21, spec=r9(az2 * 180 / PI + 180), hyps=hy)
    P.loops.append(dict(loop='geodesy.vincinv#for1 (lambda iteration, range(1000) with break)', cut='havoc/try-break/back + exhausted fork',
                        summary='VINV_lon/sigma/alpha/cos_two_sigma_m over the read-set (u1, u2, omega, lon0, a, 1/f)'))

    # ---------------------------------------------------------------- shift invariance (relational): (lon1+c, lon2+c)
    c = real('c')
    paths_b, LPb = run(lat1, lon1 + c, lat2, lon2 + c)
    rb = [p for p in paths_b if p['kind'] == 'ret']
    ok = len(rb) == len(rets)
    res_all = []
    for pa, pb in zip(rets, rb):
        if pa['decisions'] != pb['decisions']:
            ok = False
            break
        for u, v in zip(pa['val'], pb['val']):
            if isinstance(u, Sym):
                res_all.append(E.prove_eq(lift(v), lift(u), vell))
            else:
                ok = ok and u == v
        # same path conditions (the coincidence test and the loop exit see only lon2 - lon1)
        for ca, cb in zip(pa['pc'], pb['pc']):
            if not ca.eq(cb):
                res_all.append(E.prove_eq(z3.If(cb, z3.RealVal(1), z3.RealVal(0)), z3.If(ca, z3.RealVal(1), z3.RealVal(0)), vell))
    ok = ok and all(r['result'] == 'discharged' for r in res_all)
    P.oblige('vincinv.shift_invariant', 'geodesy.vincinv', 'all %d returning paths' % len(rets),
             dict(result='discharged' if ok and res_all else 'sat', backend=E.Z3V, ms=sum(r['ms'] for r in res_all)), strict=True,
             note='relational: adding any real offset c to both longitudes (hence also +-360) yields the identical result term and identical path conditions - the function reads only lon2 - lon1')

    # ---------------------------------------------------------------- swap symmetry (relational): run on (P2, P1) with head lambda' = -lambda
    hook12 = loop_hook('VINV')

    def hook21(lid, names, vals, rnames, rvals):
        h = dict(LP['head'])
        out = []
        for n in names:
            if n == 'lon':
                out.append(-h['lon'])          # relational loop invariant: lambda' = -lambda
            elif n == 'alpha':
                out.append(-h['alpha'])        # alpha' = -alpha
            else:
                out.append(h[n])               # sigma' = sigma, cos_two_sigma_m' = cos_two_sigma_m
        return tuple(out)
    paths_s, LPs = run(lat2, lon2, lat1, lon1, hook=hook21)
    # entry state of the swapped run satisfies the invariant
    P.oblige('vincinv.swap.invariant_at_entry', 'geodesy.vincinv', 'entry', E.prove_eq(lift(LPs['entry']['lon']), -lift(LP['entry']['lon']), pre), strict=True,
             note='lambda\'_0 = -lambda_0')
    # preserved by the body
    defined = [aux['sin_sigma'] > 0, UF['cos'](aux['alpha']) * UF['cos'](aux['alpha']) > 0]
    for nm, sgn in (('lon', -1), ('alpha', -1), ('sigma', 1), ('cos_two_sigma_m', 1)):
        code, spec = lift(LPs['post'][nm]), sgn * lift(LP['post'][nm])
        P.oblige('vincinv.swap.invariant_preserved.' + nm, 'geodesy.vincinv', 'loop body', E.prove_eq(code, spec, pre + defined), code=code, spec=spec, hyps=pre + defined,
                 note='one iteration on (P2, P1) from -lambda gives %s%s of the iteration on (P1, P2) from lambda' % ('-' if sgn < 0 else '', nm))
    # consequences at the exits: same distance, azimuths exchanged (modulo 360: atan2(-y,-x) = atan2(y,x) -+ pi)
    rs = [p for p in paths_s if p['kind'] == 'ret' and isinstance(p['val'][0], Sym)]
    r1 = [p for p in rets if isinstance(p['val'][0], Sym)]
    for exh in (False, True):
        c1 = [p for p in r1 if is_exh(p) == exh]
        c2 = [p for p in rs if is_exh(p) == exh]
        if not c1 or not c2:
            raise S.EngineError('swap: missing exit paths')
        tg = 'cap reached' if exh else 'converged'
        d1, d2 = lift(c1[0]['val'][0]), lift(c2[0]['val'][0])
        P.oblige('vincinv.swap.distance_equal', 'geodesy.vincinv', tg, E.prove_eq(d2, d1, pre + defined), code=d2, spec=d1, hyps=pre + defined)
        # azimuths: forward of the swapped run = reverse of the original and vice versa, on every pair of wrap cases
        seen_w = set()
        for p1 in c1:
            for p2 in c2:
                if (p1['decisions'][-1], p2['decisions'][-1]) in seen_w:
                    continue
                seen_w.add((p1['decisions'][-1], p2['decisions'][-1]))
                a12, a21 = lift(p1['val'][1]), lift(p1['val'][2])
                b12, b21 = lift(p2['val'][1]), lift(p2['val'][2])
                w1, w2 = p1['decisions'][-1], p2['decisions'][-1]
                hy = pre + defined + [p1['pc'][-1], p2['pc'][-1]]
                tag = '%s:wrap %s/%s' % (tg, 'T' if w1 else 'F', 'T' if w2 else 'F')
                # boundary cases azimuth == 0 / 360 are identified modulo 360: hypotheses exclude the two measure-zero points
                A_ = E.Abstractor()
                H = A_.assume(hy)
                # compare the arguments of the final 9-decimal rounding (equal arguments => equal rounded values)
                unr = lambda t: t.arg(0) if (z3.is_app(t) and t.decl().name() == 'round9') else t
                g1 = A_.ab(unr(b12)) == A_.ab(unr(a21))
                g2 = A_.ab(unr(b21)) == A_.ab(unr(a12))
                at = [c for _, c in A_.atoms.get('atan2', [])]
                nb = [z3.And(c != PI, c != 0) for c in at] + [z3.Or(ar[0] != 0, ar[1] != 0) for ar, _ in A_.atoms.get('atan2', [])]
                res = E.prove(z3.And(g1, g2), H + A_.side + nb, use_axioms=False)
                if res['result'] != 'discharged':
                    # an infeasible combination of wrap cases is vacuous: check that first
                    r0 = E.prove(z3.BoolVal(False), H + A_.side + nb, use_axioms=False, timeout=10000)
                    if r0['result'] == 'discharged':
                        res = r0
                P.oblige('vincinv.swap.azimuths_exchanged', 'geodesy.vincinv', tag, res, strict=True,
                         note='azimuth1to2 of (P2,P1) = azimuth2to1 of (P1,P2) and vice versa, exactly (azimuths exactly 0/180/360 identified modulo 360)')
    P.assumptions += ['assumed lemma (Vincenty 1975): series accuracy < 0.1 mm, convergence of the lambda iteration for non-antipodal pairs (the property excludes pairs within 2 deg of antipodal); checked by Layer B through the exact direct geodesic',
                      'swap symmetry: proved as a relational loop invariant (lambda\' = -lambda, alpha\' = -alpha, sigma\' = sigma) under the definedness hypotheses sin(sigma) > 0, cos(alpha) != 0; exchange of the azimuths uses the axiom atan2(-y,-x) = atan2(y,x) -+ pi and excludes azimuths exactly 0 or 180 (identified modulo 360) and undefined azimuths (atan2(0, 0))']
    B.report(P, 'bounded.C05')
    P.finish('proof')


def replay(d):
    from bounded import C05 as b
    fi = d.get('failing_input') or {}
    return b.replay_case(d.get('check'), fi.get('input', fi))
