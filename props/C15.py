"""C15 - coordinate objects convert consistently and carry heights unchanged.
Methods under contract: CoordCart.geo/.tm, CoordGeo.notation/.cart/.tm, CoordTM.geo/.cart and the constructors
(the functional conversions are summarised: their contracts are C01-C03)."""
import z3, itertools
from vp import engine as E, sym as S, bounded as B
from vp.report import Prop
from vp.sym import Sym, lift, real
from .common import *
from . import tmlib as L


def eq(a, b):
    if a is None or b is None:
        return a is b
    if z3.is_true(z3.simplify(lift(a) == lift(b))):
        return True
    sv = z3.Solver()
    sv.add(lift(a) != lift(b))
    return E.zcheck(sv, 3000) == z3.unsat


def main():
    P = Prop('C15')
    mods = E.load_repo(ALL + ('geodepy.coord',))
    C, cd, cv, ang = mods['geodepy.constants'], mods['geodepy.coord'], mods['geodepy.convert'], mods['geodepy.angles']
    ell = sym_ellipsoid(C)
    prj = sym_projection(C)
    F = cd.float              # the module's `float` (shim): stands for the float notation
    R = dict(
        xyz2llh=L.Rec(cv.xyz2llh, 'XYZ2LLH', 3, L.flat_generic(('x', 'y', 'z', 'ellipsoid'))),
        llh2xyz=L.Rec(cv.llh2xyz, 'LLH2XYZ', 3, L.flat_generic(('lat', 'lon', 'ellht', 'ellipsoid'))),
        grid2geo=L.Rec(cv.grid2geo, 'GRID2GEO', 4, L.flat_generic(('zone', 'east', 'north', 'hemisphere', 'ellipsoid', 'prj'))),
        geo2grid=L.Rec(cv.geo2grid, 'GEO2GRID', 4, L.flat_generic(('lat', 'lon', 'zone', 'ellipsoid', 'prj')),
                       wrap=lambda b, o: ('South', 55, o[0], o[1], o[2], o[3])))

    def run(thunk):
        for r in R.values():
            r.calls.clear()
        with E.rebound(cd, **R):
            return E.explore(thunk)

    def native_pair(fn):
        """run a concrete witness on the real classes; returns failure dict or None"""
        try:
            return fn()
        except Exception as ex:
            return dict(observed='%s: %s' % (type(ex).__name__, ex))
    x, y, z, n = real('x'), real('y'), real('z'), real('nval')
    la, lo, eh, oh = real('lat'), real('lon'), real('ell_ht'), real('orth_ht')
    zn, ea, no = S.integer('zone'), real('east'), real('north')

    # ---------------------------------------------------------------- CoordCart.geo
    for nv, tag in ((None, 'N absent'), (n, 'N present (any value incl. 0)')):
        pth = run(lambda: cd.CoordCart(x, y, z, nv).geo(ell, F))
        ok = all(p['kind'] == 'ret' for p in pth) and len(pth) >= 1
        okv = ok
        for p in pth:
            if p['kind'] != 'ret':
                continue
            g = p['val']
            c = R['xyz2llh'].calls[-1]
            # (each path re-runs the thunk: the last recorded call belongs to the last path; values are path independent)
            okv = okv and len(c['args']) == 5 and all(eq(u, v) for u, v in zip(c['args'], [x.t, y.t, z.t] + L.ell_flat(ell)))
            okv = okv and eq(g.lat, c['outs'][0]) and eq(g.lon, c['outs'][1]) and eq(g.ell_ht, c['outs'][2])
            if nv is None:
                okv = okv and g.orth_ht is None
            else:
                okv = okv and g.orth_ht is not None and eq(g.orth_ht, c['outs'][2].t - n.t)
        P.oblige('CoordCart.geo.values_and_orth', 'coord.CoordCart.geo', tag, dict(result='discharged' if okv else 'sat', backend='symbolic execution (all paths) + term identity', ms=0, model=None),
                 strict=True, pool=[{}],
                 refute=lambda w: native_pair(lambda: (None if (cd.CoordCart(-4052051.0, 4212836.0, -2545106.0, 0.0).geo().orth_ht is not None) else
                                                       dict(call='CoordCart(-4052051, 4212836, -2545106, nval=0.0).geo().orth_ht', observed=None, expected='ell_ht - 0.0'))),
                 note='lat/lon/ell_ht are xyz2llh(x, y, z, ellipsoid); orthometric height = ell_ht - N whenever an N value exists, including N = 0')

    # ---------------------------------------------------------------- CoordGeo.cart
    for ehv, ohv, tag in ((None, None, 'no heights'), (eh, None, 'ell only'), (None, oh, 'orth only'), (eh, oh, 'both (any values incl. 0)')):
        pth = run(lambda: cd.CoordGeo(la, lo, ehv, ohv).cart(ell))
        ok = all(p['kind'] == 'ret' for p in pth)
        for p in pth:
            if p['kind'] != 'ret':
                continue
            cc = p['val']
            # re-run this path alone to capture its own call
            want_h = eh.t if ehv is not None else z3.RealVal(0)
            s = z3.Solver()
            s.add(*p['pc'])
            # the ellipsoidal height handed to llh2xyz on this path: recover from the result term structure
            ok = ok and all(isinstance(v, Sym) for v in (cc.xaxis, cc.yaxis, cc.zaxis))
            if ehv is not None and ohv is not None:
                ok = ok and cc.nval is not None and eq(cc.nval, eh.t - oh.t)
            else:
                ok = ok and cc.nval is None
        # wiring of the conversion call (single-path re-execution for each height pattern with non-zero heights and with zero)
        for zero in (False, True):
            R['llh2xyz'].calls.clear()
            with E.rebound(cd, **R):
                S.ctx.active = False
                e_ = Sym(z3.RealVal(0)) if zero else Sym(z3.RealVal(7))
                o_ = Sym(z3.RealVal(0)) if zero else Sym(z3.RealVal(3))
                try:
                    cc = cd.CoordGeo(la, lo, e_ if ehv is not None else None, o_ if ohv is not None else None).cart(ell)
                except Exception:
                    ok = False
                    continue
            c = R['llh2xyz'].calls[-1]
            hh = (0 if zero else 7) if ehv is not None else 0
            ok = ok and all(eq(u, v) for u, v in zip(c['args'], [la.t, lo.t, z3.RealVal(hh)] + L.ell_flat(ell))) and eq(cc.xaxis, c['outs'][0]) and eq(cc.yaxis, c['outs'][1]) and eq(cc.zaxis, c['outs'][2])
            if ehv is not None and ohv is not None:
                ok = ok and cc.nval is not None and eq(cc.nval, z3.RealVal((0 if zero else 7) - (0 if zero else 3)))
        P.oblige('CoordGeo.cart.values_and_nval', 'coord.CoordGeo.cart', tag, dict(result='discharged' if ok else 'sat', backend='symbolic execution (all paths) + term identity', ms=0, model=None),
                 strict=True, pool=[{}],
                 refute=lambda w: native_pair(lambda: (None if cd.CoordGeo(-23.67, 133.88, 0.0, 5.0).cart().nval is not None else
                                                       dict(call='CoordGeo(-23.67, 133.88, ell_ht=0.0, orth_ht=5.0).cart().nval', observed=None, expected=-5.0))),
                 note='x, y, z are llh2xyz(lat, lon, ell_ht or 0, ellipsoid); N = ell_ht - orth_ht whenever both heights exist, including zeros')

    # ---------------------------------------------------------------- CoordGeo.tm / CoordTM.geo: the projection must reach the conversion
    pth = run(lambda: cd.CoordGeo(la, lo, eh, oh).tm(ell, prj))
    ok = len(pth) == 1 and pth[0]['kind'] == 'ret'
    if ok:
        t = pth[0]['val']
        c = R['geo2grid'].calls[-1]
        want = [la.t, lo.t, z3.RealVal(0)] + L.ell_flat(ell) + L.prj_flat(prj)
        ok = len(c['args']) == len(want) and all(eq(u, v) for u, v in zip(c['args'], want))
        okh = eq(t.ell_ht, eh) and eq(t.orth_ht, oh) and t.projection is prj and eq(t.east, c['outs'][0]) and eq(t.north, c['outs'][1]) and t.hemi_north is False
    P.oblige('CoordGeo.tm.projection_and_ellipsoid_reach_the_conversion', 'coord.CoordGeo.tm', 'all', dict(result='discharged' if ok else 'sat', backend='call summary over all actual arguments', ms=0, model=None),
             strict=True, pool=[{}],
             refute=lambda w: native_pair(lambda: (lambda t_, g_: None if abs(t_.east - g_[2]) < 1e-3 else dict(
                 call='CoordGeo(-33.0, 151.0).tm(ans, isg).east vs geo2grid(-33.0, 151.0, 0, ans, isg)[2]', observed=t_.east, expected=g_[2]))(
                 cd.CoordGeo(-33.0, 151.0).tm(C.ans, C.isg), cv.geo2grid(-33.0, 151.0, 0, C.ans, C.isg))),
             note='easting/northing/zone are geo2grid(lat, lon, 0, ellipsoid, projection) for the ellipsoid AND projection of the call')
    P.oblige('CoordGeo.tm.heights_kept', 'coord.CoordGeo.tm', 'all', dict(result='discharged' if pth and pth[0]['kind'] == 'ret' and okh else 'sat', backend='term identity', ms=0), strict=True)
    pth = run(lambda: cd.CoordTM(zn, ea, no, eh, oh, True, prj).geo(ell, F))
    ok = len(pth) == 1 and pth[0]['kind'] == 'ret'
    if ok:
        g = pth[0]['val']
        c = R['grid2geo'].calls[-1]
        want = [zn.t, ea.t, no.t] + L.ell_flat(ell) + L.prj_flat(prj)
        ok = c['key'] == '|hemisphere=north' and len(c['args']) == len(want) and all(eq(u, v) for u, v in zip(c['args'], want))
        okh = eq(g.ell_ht, eh) and eq(g.orth_ht, oh) and eq(g.lat, c['outs'][0]) and eq(g.lon, c['outs'][1])
    P.oblige('CoordTM.geo.projection_and_ellipsoid_reach_the_conversion', 'coord.CoordTM.geo', 'all', dict(result='discharged' if ok else 'sat', backend='call summary over all actual arguments', ms=0, model=None),
             strict=True, pool=[{}],
             refute=lambda w: native_pair(lambda: (lambda g_, r_: None if abs(float(g_.lat) - r_[0]) < 1e-9 else dict(
                 call='CoordTM(551, 300000.0, 1348000.0, projection=isg).geo(ans, float).lat vs grid2geo(551, 300000.0, 1348000.0, "south", ans, isg)[0]', observed=float(g_.lat), expected=r_[0]))(
                 cd.CoordTM(551, 300000.0, 1348000.0, projection=C.isg).geo(C.ans, F), cv.grid2geo(551, 300000.0, 1348000.0, 'south', C.ans, C.isg))),
             note='lat/lon are grid2geo(zone, east, north, hemisphere, ellipsoid, self.projection)')
    P.oblige('CoordTM.geo.heights_kept', 'coord.CoordTM.geo', 'all', dict(result='discharged' if pth and pth[0]['kind'] == 'ret' and okh else 'sat', backend='term identity', ms=0), strict=True)
    pth = run(lambda: cd.CoordTM(zn, ea, no, eh, oh, False, prj).geo(ell, F))
    okS = len(pth) == 1 and pth[0]['kind'] == 'ret' and R['grid2geo'].calls[-1]['key'] == '|hemisphere=south'
    P.oblige('CoordTM.geo.hemisphere', 'coord.CoordTM.geo', 'south', dict(result='discharged' if okS else 'sat', backend='call summary', ms=0), strict=True)
    # compositions
    pth = run(lambda: cd.CoordTM(zn, ea, no, Sym(z3.RealVal(7)), Sym(z3.RealVal(3)), False, prj).cart(ell))
    ok = len(pth) == 1 and pth[0]['kind'] == 'ret'
    if ok:
        c1, c2 = R['grid2geo'].calls[-1], R['llh2xyz'].calls[-1]
        ok = all(eq(u, v) for u, v in zip(c2['args'], [c1['outs'][0].t, c1['outs'][1].t, z3.RealVal(7)] + L.ell_flat(ell))) and eq(pth[0]['val'].nval, z3.RealVal(4))
    P.oblige('CoordTM.cart.composition', 'coord.CoordTM.cart', 'all', dict(result='discharged' if ok else 'sat', backend='call summaries', ms=0), strict=True,
             note='= llh2xyz(grid2geo(...), ell_ht, ellipsoid); N = ell - orth')
    pth = run(lambda: cd.CoordCart(x, y, z, Sym(z3.RealVal(2))).tm(ell, prj))
    ok = len(pth) == 1 and pth[0]['kind'] == 'ret'
    if ok:
        c1, c2 = R['xyz2llh'].calls[-1], R['geo2grid'].calls[-1]
        t = pth[0]['val']
        ok = all(eq(u, v) for u, v in zip(c2['args'], [c1['outs'][0].t, c1['outs'][1].t, z3.RealVal(0)] + L.ell_flat(ell) + L.prj_flat(prj))) and eq(t.ell_ht, c1['outs'][2]) and eq(t.orth_ht, c1['outs'][2].t - 2)
    P.oblige('CoordCart.tm.composition', 'coord.CoordCart.tm', 'all', dict(result='discharged' if ok else 'sat', backend='call summaries', ms=0), strict=True)

    # ---------------------------------------------------------------- notation: float source (symbolic), every target that needs no string formatting
    for dst, nm in ((F, 'float'), (ang.DECAngle, 'DECAngle'), (ang.GONAngle, 'GONAngle'), (ang.DMSAngle, 'DMSAngle'), (ang.DDMAngle, 'DDMAngle')):
        pth = E.explore(lambda: cd.CoordGeo(la, lo, eh, oh).notation(dst), [la.t >= -90, la.t <= 90, lo.t >= -180, lo.t <= 180])
        ok = bool(pth) and all(p['kind'] == 'ret' for p in pth)
        for p in pth:
            if p['kind'] == 'ret':
                g = p['val']
                ok = ok and eq(g.ell_ht, eh) and eq(g.orth_ht, oh) and (type(g.lat) is dst or (dst is F and isinstance(g.lat, Sym)))
                dlat = g.lat if isinstance(g.lat, Sym) else g.lat.dec()
                ok = ok and E.prove_eq(lift(dlat), la.t, [la.t >= -90, la.t <= 90] + p['pc'])['result'] == 'discharged'
        P.oblige('CoordGeo.notation[float->%s]' % nm, 'coord.CoordGeo.notation', '%d paths' % len(pth),
                 dict(result='discharged' if ok else 'sat', backend=E.Z3V, ms=0, model=None), strict=True, pool=[{}],
                 refute=lambda w: native_pair(lambda: (cd.CoordGeo(-23.5, 133.9).notation(float), None)[1]),
                 note='no exception, heights kept, same position (decimal value preserved); paths: %r' % ([(p['kind'], p['val'] if p['kind'] == 'raise' else '') for p in pth],))
    P.summaries += ['xyz2llh, llh2xyz, grid2geo, geo2grid summarised as UFs over all actual arguments incl. resolved defaults (contracts C01-C03, C10)']
    P.assumptions.append('notation changes that involve HP strings (HPAngle source/target) and closed conversion chains (0.3 mm) are decided by the bounded layer only')
    B.report(P, 'bounded.C15')
    P.finish('proof')


def replay(d):
    from bounded import C15 as b
    fi = d.get('failing_input') or {}
    return b.replay_case(d.get('check'), fi.get('input', fi))
