"""C02 - grid -> geographic conversion inverts the forward conversion everywhere.
Functions under contract: convert.beta_coeff, convert.grid2geo (Newton loop cut), Standalone/mga2gda.py:grid2geo."""
import z3, os
from fractions import Fraction as Fr
import mpmath as mp
from vp import engine as E, sym as S, bounded as B
from vp.report import Prop
from vp.sym import Sym, UF, PI, lift, real
from spec.M import MSym
from spec import tm as TM
from .common import *
from . import tmlib as L
from .C01 import coefficient_tables, Q


def spec_inverse_parts(east, north, south, A, beta, prj):
    """Gauss-Schreiber ratios from grid coordinates (Karney-Krueger eq. 11 with the reverted series)"""
    k0 = lift(prj.cmscale)
    x = (east - lift(prj.falseeast)) / k0
    y = ((north - lift(prj.falsenorth)) / k0) if south else -(north / k0)
    xi, eta = y / A, x / A
    xi1, eta1 = xi, eta
    for j in range(1, 9):
        eta1 = eta1 + beta[j - 1] * UF['cos'](2 * j * xi) * UF['sinh'](2 * j * eta)
        xi1 = xi1 + beta[j - 1] * UF['sin'](2 * j * xi) * UF['cosh'](2 * j * eta)
    t1 = UF['sin'](xi1) / UF['sqrt'](UF['sinh'](eta1) * UF['sinh'](eta1) + UF['cos'](xi1) * UF['cos'](xi1))
    return dict(xi=xi, eta=eta, xi1=xi1, eta1=eta1, t1=t1)


def newton_spec(t, t1, e, e2):
    """one Newton step for F(t) = tau'(t) - t1 (Karney 2011 eqs 7-9 and 19-21)"""
    Fv = TM.conformal_tau(t, e, MSym) - t1
    sig = UF['sinh'](e * TM.atanh_(e * t / UF['sqrt'](1 + t * t), MSym))
    dF = (UF['sqrt'](1 + sig * sig) * UF['sqrt'](1 + t * t) - sig * t) * ((1 - e2) * UF['sqrt'](1 + t * t) / (1 + (1 - e2) * t * t))
    return t - Fv / dF


def main():
    P = Prop('C02')
    mods = E.load_repo(ALL)
    C, cv = mods['geodepy.constants'], mods['geodepy.convert']
    ell = sym_ellipsoid(C)
    prj = sym_projection(C)
    vell, vprj = valid_ellipsoid(ell), valid_projection(prj)
    coefficient_tables(P, cv, C, ell, ('beta',))
    sm = L.make_summaries(cv)
    st = L.summary_terms(sm, ell)
    # numeric triage of an undischarged clause: the summaries RECT / BETA_j are read as the real helpers (their own contracts are the
    # coefficient_tables obligations above), so that sampled points are points of the conversion and not of an arbitrary function
    _rr, _bc = cv.rect_radius, cv.beta_coeff
    P.uf_env['RECT!0'] = lambda a, i: mp.mpf(_rr(C.Ellipsoid(float(a), float(i))))
    for _j in range(8):
        P.uf_env['BETA!%d' % _j] = lambda a, i, _j=_j: mp.mpf(_bc(C.Ellipsoid(float(a), float(i)))[_j])
    g2g = L.cut_grid2geo(cv, L.ell_flat)
    zone = S.integer('zone')
    east, north = real('east'), real('north')
    a_, invf_ = L.ell_flat(ell)
    f_ = 1 / invf_
    e2 = f_ * (2 - f_)
    e_ = UF['sqrt'](e2)

    # ------------------------------------------------------------ validation
    free = vell + vprj + [S.is_int(zone.t)]
    okv, nraise, bad, nret = True, 0, None, 0
    inside = z3.And(zone.t >= 0, zone.t <= 60, east.t >= -2830000, east.t <= 3830000, north.t >= 0, north.t <= 10000000)
    for hemi in ('south', 'North'):
        paths = L.run_grid2geo(cv, g2g, sm, zone, east, north, hemi, ell, prj, free)
        for p in paths:
            s = z3.Solver()
            s.add(S.is_int(zone.t), *E.small(p['pc'], 60))
            if p['kind'] == 'raise':
                nraise += 1
                if p['val'][0] != 'ValueError':
                    okv, bad = False, p['val']
                s.add(inside)
            else:
                nret += 1
                s.add(z3.Not(inside))
            if s.check() != z3.unsat:
                okv, bad = False, (p['kind'], p['decisions'])
    nbad = 0
    for hs in ('east', '', 'N', 5):
        try:
            cv.grid2geo(55, 500000.0, 6000000.0, hs)
        except (ValueError, AttributeError):
            nbad += 1
    P.oblige('grid2geo.validation', 'convert.grid2geo', 'all paths, both hemispheres',
             dict(result='discharged' if okv and nraise >= 6 and nbad == 4 else ('sat' if nret else 'engine: no path of the loop-cut function runs past the validation (%r)' % (bad,)), backend=E.Z3V, ms=0),
             strict=True, soft=not nret,
             note='ValueError exactly when zone outside 0..60, easting outside [-2830000,3830000], northing outside [0,1e7] or hemisphere not north/south; %r' % (bad,))

    # ------------------------------------------------------------ formula obligations per hemisphere and loop exit
    dom = [S.is_int(zone.t), zone.t >= 1, zone.t <= 60, east.t >= -2830000, east.t <= 3830000, north.t >= 0, north.t <= 10000000]
    results = {}
    for hemi in ('south', 'north'):
        south = hemi == 'south'
        paths = L.run_grid2geo(cv, g2g, sm, zone, east, north, hemi, ell, prj, vell + vprj + dom)
        rets = [p for p in paths if p['kind'] == 'ret']
        backs = [p for p in paths if p['kind'] == 'loopback']
        if not rets or not backs:
            raise S.EngineError('grid2geo: expected loopback and return paths')
        LP = dict(E.LOOPS['grid2geo#while2'])
        spec = spec_inverse_parts(east.t, north.t, south, st['A'], st['beta'], prj)
        hy0 = vell + vprj + dom
        # loop entry: t starts at t1, the tangent of the conformal latitude
        P.oblige('grid2geo.conformal', 'convert.grid2geo', hemi, E.prove_eq(lift(LP['entry']['t']), spec['t1'], hy0),
                 code=lift(LP['entry']['t']), spec=spec['t1'], hyps=hy0,
                 note='t1 = sin xi\'/sqrt(sinh^2 eta\' + cos^2 xi\') with xi\', eta\' from the call\'s own false origin, scale, rectifying radius and beta series')
        # loop body
        th = lift(LP['head']['t'])
        t1c = lift(LP['entry']['t'])
        stepc = lift(LP['post']['t'])
        steps = newton_spec(th, t1c, e_, e2)
        P.oblige('grid2geo.newton_step', 'convert.grid2geo', hemi + ':loop body', E.prove_eq(stepc, steps, hy0), code=stepc, spec=steps, hyps=hy0,
                 note='body is t <- t - F(t)/F\'(t), F = tau\'(t; e) - t1, F\' = Karney eq. 21, with the call\'s own eccentricity')
        dcode, dspec = lift(LP['post']['diff']), z3.If(stepc - th >= 0, stepc - th, th - stepc)
        P.oblige('grid2geo.newton_diff', 'convert.grid2geo', hemi + ':loop body', E.prove_eq(dcode, dspec, hy0), code=dcode, spec=dspec, hyps=hy0)
        P.oblige('grid2geo.newton_count', 'convert.grid2geo', hemi + ':loop body',
                 E.prove_eq(lift(LP['post']['itercount']), lift(LP['head']['itercount']) + 1, hy0), strict=True)
        for k, p in enumerate(rets):
            (lat_o, lon_o, psf, gc), calls = p['val']
            call = calls[0]
            tag = '%s:exit%d' % (hemi, k)
            hy = hy0 + E.small(p['pc'], 200)
            dh, ih = lift(LP['head']['diff']), lift(LP['head']['itercount'])
            P.oblige('grid2geo.newton_exit', 'convert.grid2geo', tag, E.prove(z3.Or(dh <= z3.Q(1, 10 ** 15), ih >= 100), p['pc'], use_axioms=False), strict=True,
                     note='the loop is left only when the last step is <= 1e-15 or 100 iterations were made')
            sign = 1 if south else -1
            r11 = S.round_uf(11)
            lat_s = sign * r11(UF['atan'](th) * 180 / PI)
            P.oblige('grid2geo.lat', 'convert.grid2geo', tag, E.prove_eq(lift(lat_o), lat_s, hy), code=lift(lat_o), spec=lat_s, hyps=hy,
                     note='hemisign * round11(degrees(atan(t))) with t the loop result')
            cmz = zone.t * lift(prj.zonewidth) + lift(prj.initialcm) - lift(prj.zonewidth)
            lon_s = r11(cmz + UF['atan'](UF['sinh'](spec['eta1']) / UF['cos'](spec['xi1'])) * 180 / PI)
            P.oblige('grid2geo.lon', 'convert.grid2geo', tag, E.prove_eq(lift(lon_o), lon_s, hy), code=lift(lon_o), spec=lon_s, hyps=hy)
            P.oblige('grid2geo.gauss_schreiber.xi', 'convert.grid2geo', tag, E.prove_eq(call['args'][0], spec['xi1'], hy), code=call['args'][0], spec=spec['xi1'], hyps=hy)
            P.oblige('grid2geo.gauss_schreiber.eta', 'convert.grid2geo', tag, E.prove_eq(call['args'][1], spec['eta1'], hy), code=call['args'][1], spec=spec['eta1'], hyps=hy)
            results[(hemi, k)] = (lift(lat_o), lift(lon_o), p)
    P.loops.append(dict(loop='convert.grid2geo#while2 (Newton)', cut='havoc/if/back', summary='NEWTON_t/diff/itercount/t_before(t1, a, 1/f)',
                        proved='step form, |step| bookkeeping, counter, exit criterion', assumed='convergence'))

    # ------------------------------------------------------------ hemisphere mirror (relational)
    FN = lift(prj.falsenorth)
    for k in sorted(set(kk for (_, kk) in results)):
        if ('north', k) in results and ('south', k) in results:
            la_n, lo_n, _ = results[('north', k)]
            la_s, lo_s, _ = results[('south', k)]
            sub = (north.t, FN - north.t)
            la_s2, lo_s2 = z3.substitute(la_s, sub), z3.substitute(lo_s, sub)
            hy = vell + vprj + dom
            P.oblige('grid2geo.hemisphere_mirror.lat', 'convert.grid2geo', 'exit%d' % k, E.prove_eq(la_n, -la_s2, hy), code=la_n, spec=-la_s2, hyps=hy,
                     note='northing N in the north and FN - N in the south give latitudes of opposite sign')
            P.oblige('grid2geo.hemisphere_mirror.lon', 'convert.grid2geo', 'exit%d' % k, E.prove_eq(lo_n, lo_s2, hy), code=lo_n, spec=lo_s2, hyps=hy)

    # ------------------------------------------------------------ Newton derivative lemma: F' is dF/dt
    t, e, sg, ds = z3.Real('t'), z3.Real('e'), z3.Real('sg'), z3.Real('dsg')
    Cc, Rr = z3.Real('C'), z3.Real('R')          # C = sqrt(1+sigma^2), R = sqrt(1+t^2)
    hy = [Cc * Cc == 1 + sg * sg, Rr * Rr == 1 + t * t, Cc > 0, Rr > 0, e > 0, e < 1,
          # chain rule: sigma = sinh(e atanh(u)), u = e t / R;  du/dt = e / R^3;  d atanh(u) = du/(1-u^2);  d sinh = cosh = C
          ds == Cc * e * (e / (Rr * Rr * Rr)) / (1 - (e * t / Rr) * (e * t / Rr))]
    dF = Cc + t * sg * ds / Cc - ds * Rr - sg * t / Rr            # d/dt [ t C - sigma R ]
    Dk = (Cc * Rr - sg * t) * ((1 - e * e) * Rr / (1 + (1 - e * e) * t * t))
    P.oblige('grid2geo.newton_derivative', 'convert.grid2geo', 'lemma', E.prove(dF == Dk, hy, use_axioms=False), strict=True,
             note='the expression used as F\' equals dF/dt (chain rule facts sinh\'=cosh, atanh\'=1/(1-u^2), (1+t^2)^(1/2)\' = t/R supplied as hypotheses)')
    P.assumptions += ['assumed lemma: Newton iteration on tau\' converges quadratically from t1 (F\' in [(1-e^2),1]); proved: step form, derivative identity, exit criterion; convergence and the cap never being reached are checked by Layer B',
                      'assumed lemma: the beta series is the reversion of the alpha series to O(n^9) (beta coefficients themselves are proved against the independently reverted series); closure of the two truncated series (round trip) is bounded',
                      'calculus rules (derivatives of sinh, atanh, sqrt, chain rule) in grid2geo.newton_derivative are trusted']

    # ------------------------------------------------------------ stand-alone converter
    sa = E.load_file(os.path.join(E.REPO, 'Standalone', 'mga2gda.py'), 'mga2gda_standalone')
    zz, ee, nn = S.integer('zone'), real('east'), real('north')
    pth = E.explore(lambda: sa.grid2geo(zz, ee, nn), [S.is_int(zz.t)])
    if len(pth) != 1 or pth[0]['kind'] != 'ret':
        raise S.EngineError('standalone grid2geo: unexpected paths')
    la, lo = [lift(v) for v in pth[0]['val']]
    fl = lambda v: S.lift_float(float(v))
    Asa, e_sa, e2_sa = fl(sa.A), fl(sa.ecc1), fl(float(sa.ecc1sq))
    bsa = [fl(getattr(sa, 'b%d' % (2 * j))) for j in range(1, 9)]

    class PJ:
        falseeast, falsenorth, cmscale, zonewidth, initialcm = [S.lift(float(sa.proj[i])) for i in (2, 3, 4, 5, 6)]
    sp = spec_inverse_parts(ee.t, nn.t, True, Asa, bsa, PJ)
    r11 = S.round_uf(11)
    # The latitude clause of the stand-alone converter is NOT a Layer P obligation: its constants are floats combined before
    # they meet a symbol (1 - ecc1sq, A, b_j), so under A1 its term differs from any closed-form specification by ~1e-17
    # relative; an exact identity is ill-posed and a nested-Newton tolerance form is out of reach.  Decided by Layer B
    # (C02.B.standalone: 1e-10 deg against the library on southern UTM input) - bounded, not proved.
    P.notes.append('standalone latitude: bounded only (see comment in props/C02.py); longitude, constants: proved/exhaustive')
    cmz = zz.t * PJ.zonewidth + PJ.initialcm - PJ.zonewidth
    los = r11(cmz + UF['atan'](UF['sinh'](sp['eta1']) / UF['cos'](sp['xi1'])) * 180 / PI)
    P.oblige('standalone.grid2geo.lon', 'Standalone/mga2gda.py:grid2geo', 'all', E.prove_eq(lo, los, []), code=lo, spec=los)
    # its constants against the library's for GRS80 (finite: exhaustive)
    lib_b = cv.beta_coeff(C.grs80)
    lib_A = cv.rect_radius(C.grs80)
    devs = [abs(float(getattr(sa, 'b%d' % (2 * j))) - lib_b[j - 1]) for j in range(1, 9)]
    okc = all(d <= 1e-13 for d in devs) and abs(sa.A - lib_A) <= 1e-6 and abs(sa.ecc1 - C.grs80.ecc1) <= 1e-13 and [float(x) for x in sa.proj[2:]] == [500000.0, 1e7, 0.9996, 6.0, -177.0]
    P.oblige('standalone.constants', 'Standalone/mga2gda.py', '11 module constants (exhaustive)', dict(result='discharged' if okc else 'sat', backend='native comparison', ms=0), strict=True,
             note='A within 1e-6 m, beta_j within 1e-13, e within 1e-13 of the library\'s GRS80 values (inverse flattening 298.25722210088 vs 298.257222101); max beta deviation %.2e' % max(devs))

    # ---------------------------------------------------------------- the object API named as an observation point (props/coordlib.py)
    from . import coordlib
    m2 = E.load_repo(tuple(ALL) + ('geodepy.coord',))
    coordlib.wiring(P, m2, sym_ellipsoid(m2['geodepy.constants']), sym_projection(m2['geodepy.constants']), ('CoordTM.geo',))
    B.report(P, 'bounded.C02')
    P.finish('proof')


def replay(d):
    if (d.get('obligation') or '').startswith('Coord'):
        from . import coordlib
        return coordlib.replay_wiring(d['obligation'])
    from bounded import C02 as b
    fi = d.get('failing_input') or {}
    return b.replay_case(d.get('check'), fi.get('input', fi))
