"""C13 - MGA94 <-> MGA2020 transformations are mutual inverses and match their definition.
Functions under contract: transform.transform_mga94_to_mga2020, transform_mga2020_to_mga94 (each step summarised by the
contract of the function it calls: C02, C03, C06, C16, C01)."""
import z3
import numpy as np
from vp import engine as E, sym as S, bounded as B
from vp.report import Prop
from vp.sym import Sym, lift, real
from .common import *
from . import tmlib as L
from .C06 import PARAMS, RATES
from .C15 import eq


def main():
    P = Prop('C13')
    mods = E.load_repo(ALL)
    C, tr, cv, st = mods['geodepy.constants'], mods['geodepy.transform'], mods['geodepy.convert'], mods['geodepy.statistics']
    zn, ea, no, h = S.integer('zone'), real('east'), real('north'), real('ell_ht')
    V = np.array([[real('v%d%d' % (min(i, j), max(i, j))) for j in range(3)] for i in range(3)], dtype=object)

    def mk():
        return dict(
            grid2geo=L.Rec(cv.grid2geo, 'GRID2GEO', 4, L.flat_generic(('zone', 'east', 'north', 'hemisphere', 'ellipsoid', 'prj'))),
            geo2grid=L.Rec(cv.geo2grid, 'GEO2GRID', 5, L.flat_generic(('lat', 'lon', 'zone', 'ellipsoid', 'prj')),
                           wrap=lambda b, o: ('South', o[4], o[0], o[1], o[2], o[3])),
            llh2xyz=L.Rec(cv.llh2xyz, 'LLH2XYZ', 3, L.flat_generic(('lat', 'lon', 'ellht', 'ellipsoid'))),
            xyz2llh=L.Rec(cv.xyz2llh, 'XYZ2LLH', 3, L.flat_generic(('x', 'y', 'z', 'ellipsoid'))),
            vcv_local2cart=L.Rec(st.vcv_local2cart, 'L2C', 9, L.flat_generic(('vcv_local', 'lat', 'lon')), wrap=lambda b, o: np.array(o, dtype=object).reshape(3, 3)),
            vcv_cart2local=L.Rec(st.vcv_cart2local, 'C2L', 9, L.flat_generic(('vcv_cart', 'lat', 'lon')), wrap=lambda b, o: np.array(o, dtype=object).reshape(3, 3)))
    grs = [z3.RealVal(6378137), S.lift_float(298.257222101)]
    utm = [z3.RealVal(v) for v in (500000, 10000000)] + [S.lift_float(0.9996), z3.RealVal(6), z3.RealVal(-177)]
    c7 = {}

    def c7stub(x, y, z, trans, vcv=None):
        c7['args'] = (x, y, z, trans, vcv)
        outs = tuple(Sym(z3.Real('C7_%s' % k)) for k in 'xyz')
        return outs + ((np.array([[Sym(z3.Real('C7v%d%d' % (i, j))) for j in range(3)] for i in range(3)], dtype=object)) if vcv is not None else None,)
    for name, fn, sign in (('transform_mga94_to_mga2020', tr.transform_mga94_to_mga2020, 1), ('transform_mga2020_to_mga94', tr.transform_mga2020_to_mga94, -1)):
        for hv, vv, tag in ((False, None, 'no height, no covariance'), (h, None, 'height'), (h, V, 'height + covariance'), (False, V, 'covariance only')):
            R = mk()
            with E.rebound(tr, conform7=c7stub, **R):
                pth = E.explore(lambda: fn(zn, ea, no, hv, vv))
            ok = len(pth) == 1 and pth[0]['kind'] == 'ret'
            det = {}
            if ok:
                zo, eo, no_, ho, vo = pth[0]['val']
                g1 = R['grid2geo'].calls[0]
                det['grid2geo'] = g1['key'] == '|hemisphere=south' and all(eq(u, v) for u, v in zip(g1['args'], [zn.t, ea.t, no.t] + grs + utm))
                l1 = R['llh2xyz'].calls[0]
                hin = h.t if hv is not False else z3.RealVal(0)
                det['llh2xyz'] = all(eq(u, v) for u, v in zip(l1['args'], [g1['outs'][0].t, g1['outs'][1].t, hin] + grs))
                a = c7['args']
                det['conform7_point'] = all(eq(u, v) for u, v in zip(a[:3], l1['outs']))
                t = a[3]
                g = C.gda94_to_gda2020
                det['parameter_set'] = type(t) is C.Transformation and all(getattr(t, k) == sign * getattr(g, k) for k in PARAMS + RATES) and t.tf_sd is g.tf_sd and \
                    (t.from_datum, t.to_datum) == (('GDA94', 'GDA2020') if sign == 1 else ('GDA2020', 'GDA94'))
                x1 = R['xyz2llh'].calls[0]
                det['xyz2llh'] = all(eq(u, v) for u, v in zip(x1['args'], [z3.Real('C7_x'), z3.Real('C7_y'), z3.Real('C7_z')] + grs))
                g2 = R['geo2grid'].calls[0]
                det['geo2grid_natural_zone'] = all(eq(u, v) for u, v in zip(g2['args'], [x1['outs'][0].t, x1['outs'][1].t, z3.RealVal(0)] + grs + utm))
                det['outputs'] = eq(zo, g2['outs'][4]) and eq(eo, g2['outs'][0]) and eq(no_, g2['outs'][1])
                r4 = S.round_uf(4)
                if hv is False:
                    det['height_absent'] = (not isinstance(ho, Sym) and ho == 0) or eq(ho, z3.RealVal(0))
                else:
                    det['height_present'] = eq(ho, r4(x1['outs'][2].t))
                if vv is None:
                    det['vcv_absent'] = vo is None and a[4] is None and not R['vcv_local2cart'].calls and not R['vcv_cart2local'].calls
                else:
                    c1 = R['vcv_local2cart'].calls[0]
                    det['vcv_in_at_input_position'] = all(eq(u, v) for u, v in zip(c1['args'], [lift(x_) for x_ in V.flatten()] + [g1['outs'][0].t, g1['outs'][1].t]))
                    det['vcv_through_conform7'] = a[4] is not None and all(eq(u, v) for u, v in zip(a[4].flatten(), c1['outs']))
                    c2 = R['vcv_cart2local'].calls[0]
                    det['vcv_out_at_output_position'] = all(eq(u, v) for u, v in zip(c2['args'], [z3.Real('C7v%d%d' % (i, j)) for i in range(3) for j in range(3)] + [x1['outs'][0].t, x1['outs'][1].t]))
                    det['vcv_returned'] = vo is not None and all(eq(u, v) for u, v in zip(vo.flatten(), c2['outs']))
            for k, v in (det.items() if ok else [('runs', False)]):
                P.oblige('%s.%s' % (name, k), 'transform.' + name, tag, dict(result='discharged' if v else 'sat', backend='call summaries over all actual arguments + term identity', ms=0), strict=True)
    P.summaries += ['grid2geo, llh2xyz, conform7, xyz2llh, geo2grid, vcv_local2cart, vcv_cart2local summarised (contracts C02, C03, C06, C01, C16)']
    P.assumptions.append('mutual inverse to 0.3 mm / 0.2 mm follows from the contracts C02, C03, C06 of the composed steps (lemma over contracts); its numeric bound, symmetry/PSD of the returned covariance and the stepwise composition on floats are checked by Layer B')
    B.report(P, 'bounded.C13')
    P.finish('proof')


def replay(d):
    from bounded import C13 as b
    fi = d.get('failing_input') or {}
    return b.replay_case(d.get('check'), fi.get('input', fi))
