#!/usr/bin/env python3
"""Regenerate MANIFEST.json from the table below (kept valid at all times)."""
import json, os
HERE = os.path.dirname(os.path.abspath(__file__))
PROPS = [json.loads(l)['id'] for l in open(os.path.join(HERE, 'properties.jsonl'))]
CLAIMS = {}
exec(open(os.path.join(HERE, 'claims.py')).read())
checks = []
na = []
for pid in PROPS:
    if pid in CLAIMS and os.path.exists(os.path.join(HERE, 'props', pid + '.py')):
        c = CLAIMS[pid]
        checks.append(dict(property_id=pid, quick_cmd='./check %s --tier quick' % pid, thorough_cmd='./check %s --tier thorough' % pid,
                           evidence_file='evidence/%s.json' % pid, replay_cmd_template='./check --replay {path}', engine='vp',
                           level_claimed=dict(category=c.get('category', 'proof'), text=c['text'], design_ref=c.get('design_ref', 'DESIGN.md section 4 ' + pid)),
                           level_note=c['note'], technique=c['technique']))
    else:
        na.append(dict(property_id=pid, reason=NOT_CLAIMED.get(pid, 'check not built yet in this session; no claim is made')))
m = dict(version=1, setup_cmd='./setup.sh',
         hooks=dict(guard='GEODEPY_VERIF', enable='none needed: every instrumentation point is a rebinding of module globals of the loaded copy inside the checker process (DESIGN 2.1); the repository carries no hook',
                    baseline_off_cmd='cd /repo && /venv/bin/python -m pytest -ra -q -p no:cacheprovider --timeout=900 --continue-on-collection-errors',
                    source_commits=[], add_only=True),
         engines=[dict(name='vp', path='vp/', serves_properties=[c['property_id'] for c in checks],
                       kind_free_text='contract-based deductive verification: real functions executed on symbolic values, loops cut by contracts, callee summaries, VCs discharged by z3 5.1 (cvc5 second); bounded stand-in layer run-time checks the same contracts on lattices against 50-digit oracles')],
         checks=checks, notes=NOTES, not_applicable=na)
json.dump(m, open(os.path.join(HERE, 'MANIFEST.json'), 'w'), indent=1)
try:
    import jsonschema
    jsonschema.validate(m, json.load(open('/root/.vp/MANIFEST.schema.json')))
    print('MANIFEST valid:', len(checks), 'checks,', len(na), 'not claimed')
except ImportError:
    print('written (jsonschema unavailable)')
